"""Driver for the real band matcher on duck-typed dataset stubs (no files needed) and on real files for a subset."""
import math
import signal
import warnings

import numpy as np
from rasterio.enums import ColorInterp

warnings.filterwarnings('ignore')
CI = [ColorInterp.red, ColorInterp.green, ColorInterp.blue, ColorInterp.alpha, ColorInterp.undefined]
ERR = [('contain invalid band', 1), ('contain alpha band', 2), ('There are no non-alpha', 3), ('has fewer bands than', 4),
       ('could not be auto-matched', 5), ('Could not match', 7)]


class Stub:
    """What _get_band_info / _match_pair_bands / _get_pair_band_table read from a dataset."""

    def __init__(self, name, bands):
        self.name = name
        self.bands = bands            # list of dict(ci=0..4, maskdesc=bool, cw=float|None)
        self.count = len(bands)
        self.colorinterp = [CI[b['ci']] for b in bands]
        self.descriptions = tuple((f'B{i + 1}' + ('_MASK', '_DIST')[i % 2] if b['maskdesc'] else (f'B{i + 1}' if b.get('named', True) else None))
                                  for i, b in enumerate(bands))

    def tags(self, bi=None):
        if bi is None:
            return {}
        b = self.bands[bi - 1]
        return {} if b['cw'] is None else {'center_wavelength': repr(float(b['cw']))}


class Timeout(Exception):
    pass


def _alarm(*a):
    raise Timeout()


def run_match(src, ref, sb, rb, force, limit=3):
    """(code, src bands, ref bands, message) from the real matcher; code 0 ok, 1..7 error kinds, -1 timeout, 9 other."""
    from homonim.matched_pair import MatchedPairReader
    obj = MatchedPairReader.__new__(MatchedPairReader)
    obj._src_bands = None if sb is None else tuple(sb)
    obj._ref_bands = None if rb is None else tuple(rb)
    obj._force = force
    old = signal.signal(signal.SIGALRM, _alarm)
    signal.alarm(limit)
    try:
        with warnings.catch_warnings(), np.errstate(all='ignore'):
            warnings.simplefilter('ignore')
            s, r = obj._match_pair_bands(Stub('src.tif', src), Stub('ref.tif', ref))
        return 0, list(s), list(r), ''
    except Timeout:
        return -1, [], [], 'timeout'
    except ValueError as ex:
        msg = str(ex)
        for pat, code in ERR:
            if pat in msg:
                return code, [], [], msg[:120]
        if 'shape mismatch' in msg or 'broadcast' in msg or 'cannot assign' in msg:
            return 6, [], [], msg[:120]
        return 9, [], [], msg[:160]
    except Exception as ex:
        return 9, [], [], f'{type(ex).__name__}: {str(ex)[:140]}'
    finally:
        signal.alarm(0)
        signal.signal(signal.SIGALRM, old)


def encode(src, ref, sb, rb, force, obs):
    def img(bands):
        out = [len(bands)]
        for b in bands:
            out += [b['ci'], int(b['maskdesc']), float('nan') if b['cw'] is None else float(b['cw'])]
        return out

    def sel(s):
        return [0, 0] if s is None else [1, len(s), *s]
    code, s, r, _ = obs
    tail = [0, len(s), *s, len(r), *r] if code == 0 else [code]
    return [float(x) for x in [int(force)] + img(src) + img(ref) + sel(sb) + sel(rb) + tail]


WL = [0.443, 0.48, 0.49, 0.56, 0.65, 0.665, 0.705, 0.74, 0.83, 0.865, 1.61, 2.19]


def gen_image(rng, n, style):
    bands = []
    for i in range(n):
        ci, md, cw = 4, False, None
        if style in ('wl', 'wl-perm', 'partial', 'edge'):
            cw = rng.choice(WL) * rng.choice([1, 1, 1, 1.0000001, 0.97, 1.04])
            if style == 'partial' and rng.random() < 0.4:
                cw = None
        bands.append(dict(ci=ci, maskdesc=md, cw=cw))
    if style in ('rgb', 'bgr') and n >= 3:
        order = [0, 1, 2] if style == 'rgb' else [2, 1, 0]
        for k in range(3):
            bands[k]['ci'] = order[k]
    if rng.random() < 0.25 and n >= 2:
        bands[rng.randrange(n)]['ci'] = 3          # alpha band
        bands[-1]['cw'] = bands[-1]['cw'] if rng.random() < 0.5 else None
    if rng.random() < 0.15 and n >= 2:
        k = rng.randrange(n)
        bands[k]['maskdesc'] = True
        bands[k]['cw'] = None
    return bands


def gen_case(rng):
    if rng.random() < 0.08:
        # closely spaced bands (red edge / NIR, hyperspectral: neighbours less than 10 % apart) stored in another order in the reference: every
        # positional pair is within the tolerance, and yet the nearest reference band of a source band is not the one at its position
        n = rng.randint(2, 4)
        start = rng.randrange(0, 5 - n)
        wls = [0.705, 0.74, 0.783, 0.842][start:start + n]
        src = [dict(ci=4, maskdesc=False, cw=w) for w in wls]
        ref = [dict(ci=4, maskdesc=False, cw=w * rng.choice([1.0, 0.995, 1.005])) for w in wls]
        perm = list(range(n))
        while perm == list(range(n)):
            if rng.random() < 0.5:
                perm = [i + 1 if i % 2 == 0 and i + 1 < n else (i - 1 if i % 2 == 1 else i) for i in range(n)]      # neighbours swapped
            else:
                rng.shuffle(perm)
        ref = [ref[i] for i in perm]
        return src, ref, None, None, False
    if rng.random() < 0.12:
        # a user selection of reference bands in which bands WITHOUT a wavelength (quality / mask-like bands) stand among - typically ahead of -
        # the bands that match the source's wavelengths within the tolerance: positions in the selection and positions among the bands that
        # carry a wavelength are different things
        ns = rng.randint(1, 4)
        wls = rng.sample(WL, ns)
        src = [dict(ci=4, maskdesc=False, cw=w) for w in wls]
        ref = [dict(ci=4, maskdesc=False, cw=w * rng.choice([1.0, 0.97, 1.03, 1.06])) for w in wls]
        rng.shuffle(ref)
        for _ in range(rng.randint(1, 2)):
            ref.insert(rng.choice([0, 0, rng.randint(0, len(ref))]), dict(ci=4, maskdesc=False, cw=None))
        if rng.random() < 0.3:
            ref.append(dict(ci=4, maskdesc=False, cw=rng.choice(WL) * 3.0))
        rb = list(range(1, len(ref) + 1))
        if rng.random() < 0.3:
            rng.shuffle(rb)
        return src, ref, (None if rng.random() < 0.6 else list(range(1, ns + 1))), rb, False
    style_s = rng.choice(['wl', 'wl', 'partial', 'none', 'rgb', 'bgr', 'edge'])
    style_r = rng.choice(['wl', 'wl', 'partial', 'none', 'rgb', 'bgr', style_s])
    ns, nr = rng.randint(1, 6), rng.randint(1, 8)
    src, ref = gen_image(rng, ns, style_s), gen_image(rng, nr, style_r)
    if style_s == 'edge':
        # reference wavelengths at, just inside and just outside the 10 % tolerance of the source's, and exact ties
        for b in ref:
            if b['cw'] is not None and src:
                s = rng.choice([x['cw'] for x in src if x['cw'] is not None] or [0.5])
                b['cw'] = s * rng.choice([1.1, 0.9, 1.1000000000000001, 1.0999999999, 0.9000000001, 1.0, 1.05, 1.2])
    if rng.random() < 0.2 and src and ref:     # permuted copy of the source as reference
        ref = [dict(b) for b in src]
        rng.shuffle(ref)
        while len(ref) < nr and rng.random() < 0.5:
            ref.append(dict(ci=4, maskdesc=False, cw=rng.choice(WL)))

    def sel(n, bands):
        m = rng.random()
        if m < 0.5:
            return None
        if m < 0.55:
            return []
        k = rng.randint(1, n)
        s = rng.sample(range(1, n + 1), k)
        if rng.random() < 0.1:
            s[rng.randrange(k)] = n + rng.randint(1, 2)            # out of range
        if rng.random() < 0.1 and k >= 2:
            s[0] = s[1]                                            # duplicate
        return s
    return src, ref, sel(len(src), src), sel(len(ref), ref), rng.random() < 0.2


def spec_check(src, ref, sb, rb, force, obs):
    """C15 stated directly on the implementation's answer; returns None or a description of the violated clause."""
    code, s, r, _ = obs
    if code != 0:
        return None
    if len(s) != len(r):
        return 'matched lists differ in length'
    for b, im, nm in ((s, src, 'source'), (r, ref, 'reference')):
        for x in b:
            if not (1 <= x <= len(im)):
                return f'{nm} band {x} does not exist'
            if im[x - 1]['ci'] == 3 or im[x - 1]['maskdesc']:
                return f'{nm} band {x} is an alpha / mask band'
    if sb:
        if any(x not in sb for x in s):
            return 'source band outside the user selection'
        it = iter(sb)
        if not all(any(x == y for y in it) for x in s):
            return 'source bands not in the order given'
    if rb and any(x not in rb for x in r):
        return 'reference band outside the user selection'
    if (rb is None or len(set(rb)) == len(rb)) and len(set(r)) != len(r):
        return 'a reference band is used twice'
    if not force:
        from math import isnan
        # wavelengths as the matcher sees them are not recomputed here: only the raw tags (both present) are judged
        for x, y in zip(s, r):
            a, b = src[x - 1]['cw'], ref[y - 1]['cw']
            if a is not None and b is not None and a > 0 and abs(a - b) / a > 0.1 * (1 + 1e-12):
                return f'pair ({x}, {y}) differs by more than 10 %'
        want = sb if sb else None
        if want is not None and len(s) != len(want):
            return 'a selected source band was silently dropped'
        # nearest-band clause: every band that takes part carries a wavelength, each source band has ONE nearest reference band and these are
        # pairwise distinct -> every source band is matched to its nearest band, whatever the order of the bands in either file
        usable = lambda im, j: im[j - 1]['ci'] != 3 and not im[j - 1]['maskdesc']       # noqa: E731
        s_all = [j for j in (sb or range(1, len(src) + 1)) if 1 <= j <= len(src) and usable(src, j)]
        r_all = [j for j in (rb or range(1, len(ref) + 1)) if 1 <= j <= len(ref) and usable(ref, j)]
        if s_all == list(s) and len(set(r_all)) == len(r_all) and all(src[j - 1]['cw'] for j in s_all) and all(ref[j - 1]['cw'] for j in r_all):
            near = []
            for x in s:
                ds = sorted((abs(src[x - 1]['cw'] - ref[j - 1]['cw']) / src[x - 1]['cw'], j) for j in r_all)
                if len(ds) >= 2 and not ds[0][0] < ds[1][0]:
                    near = None
                    break
                near.append(ds[0][1])
            if near is not None and len(set(near)) == len(near) and list(r) != near:
                k_ = next(i for i in range(len(near)) if r[i] != near[i])
                return f'source band {s[k_]} is matched to reference band {r[k_]} although its nearest reference band is {near[k_]} (nearest bands pairwise distinct)'
    return None
