#!/venv/bin/python
"""Development aid (not a registered check): run checks against mutated copies of /repo without touching /repo or /verif.

usage: mutants.py [-j N] [--tier quick] <spec.json | dir> ...
A spec is {"id": "...", "property": "C05", "checks": ["C05", ...] (default [property]), and either
           "file": "homonim/utils.py", "old": "...", "new": "..." [, "count": 1]   or   "patch": "path/to/patch.diff" (relative to /verif),
           "expect": "caught" | "equivalent" | "tie-only" (behaviour-preserving, may break a tie but must not yield a concrete failing input), "note": "..."}.
For every spec a scratch worktree of /repo (HEAD + /repo's uncommitted changes are NOT included) and a scratch copy of /verif are made
under /tmp, the mutation is applied, the listed checks run there with HOMONIM_REPO pointing at the worktree, and both copies are removed."""
import json
import os
import shutil
import subprocess
import sys
from concurrent.futures import ThreadPoolExecutor
from pathlib import Path

VERIF = Path(__file__).resolve().parents[1]


def run_one(spec, tier, seed):
    tag = f"{spec['id']}_{os.getpid()}"
    wt, vc = Path(f'/tmp/mw_{tag}'), Path(f'/tmp/mv_{tag}')
    res = dict(id=spec['id'], property=spec['property'], expect=spec.get('expect', 'caught'), results={})
    try:
        subprocess.run(['git', '-C', '/repo', 'worktree', 'add', '-q', '--detach', str(wt), 'HEAD'], check=True)
        if 'patch' in spec:
            rc = subprocess.run(['git', '-C', str(wt), 'apply', str(VERIF / spec['patch'])]).returncode
            if rc:
                res['error'] = 'patch does not apply'
                return res
        else:
            fn = wt / spec['file']
            s = fn.read_text()
            if s.count(spec['old']) < 1:
                res['error'] = 'old text not found'
                return res
            fn.write_text(s.replace(spec['old'], spec['new'], spec.get('count', 1)))
        rc = subprocess.run(['/venv/bin/python', '-c', 'import homonim, homonim.cli'], cwd=wt, env=dict(os.environ, PYTHONPATH=str(wt)),
                            capture_output=True).returncode
        if rc:
            res['error'] = 'mutant does not import'
            return res
        subprocess.run(['rsync', '-a', '--exclude', '.git', '--exclude', 'work', '--exclude', 'replays', f'{VERIF}/', f'{vc}/'], check=True)
        (vc / 'work').mkdir(exist_ok=True)
        for cid in spec.get('checks', [spec['property']]):
            env = dict(os.environ, HOMONIM_REPO=str(wt), VERIF_SEED=str(seed))
            p = subprocess.run(['./bin/check', cid, '--tier', tier], cwd=vc, env=env, capture_output=True, timeout=3600)
            out = p.stdout.decode()
            lines = [l for l in out.splitlines() if l.startswith(('VIOLATION', 'KNOWN', '[' + cid))]
            what = ''
            for l in lines:
                if l.startswith('VIOLATION'):
                    try:
                        rp = json.loads(Path(l.split('replay=')[1].split()[0]).read_text())
                        what = f"{rp.get('kind')}: {rp.get('what', '')[:140]}"
                    except Exception:      # noqa: BLE001
                        pass
            vl = [l for l in lines if l.startswith('VIOLATION')]
            res['results'][cid] = dict(rc=p.returncode, violation=vl[:1], what=what, concrete=sum(1 for l in vl if 'no-failing-input-found' not in l), unlocated=sum(1 for l in vl if 'no-failing-input-found' in l),
                                       summary=lines[-1] if lines else out[-200:])
        res['caught'] = any(r['rc'] == 1 and r['violation'] for r in res['results'].values())
        return res
    except Exception as ex:      # noqa: BLE001
        res['error'] = f'{type(ex).__name__}: {ex}'
        return res
    finally:
        subprocess.run(['git', '-C', '/repo', 'worktree', 'remove', '--force', str(wt)], capture_output=True)
        shutil.rmtree(wt, ignore_errors=True)
        shutil.rmtree(vc, ignore_errors=True)


def main():
    args = sys.argv[1:]
    jobs, tier, seed, specs = 4, 'quick', int(os.environ.get('VERIF_SEED', '0')), []
    while args:
        a = args.pop(0)
        if a == '-j':
            jobs = int(args.pop(0))
        elif a == '--tier':
            tier = args.pop(0)
        elif Path(a).is_dir():
            specs += [json.loads(f.read_text()) for f in sorted(Path(a).glob('*.json'))]
        else:
            specs.append(json.loads(Path(a).read_text()))
    with ThreadPoolExecutor(jobs) as ex:
        out = list(ex.map(lambda s: run_one(s, tier, seed), specs))
    bad = 0
    for r in out:
        verdict = 'ERROR ' + r['error'] if 'error' in r else ('caught' if r['caught'] else 'MISSED')
        concrete = sum(v.get('concrete', 0) for v in r.get('results', {}).values())
        if r['expect'] == 'tie-only':
            # a behaviour-preserving restructuring beyond what the translators look through: a broken tie (no-failing-input-found) is the documented
            # limit; what must never happen is a CONCRETE failing input on code where the property holds
            ok = ('error' not in r) and concrete == 0
        else:
            ok = ('error' not in r) and ((r['expect'] == 'caught') == r['caught'])
        bad += not ok
        by = ', '.join(f"{c}:{('V' + str(v.get('concrete', '')) + '+' + str(v.get('unlocated', ''))) if v['violation'] else '-'}" for c, v in r.get('results', {}).items())
        what = next((v['what'] for v in r.get('results', {}).values() if v['what']), '')
        print(f"{'ok ' if ok else 'BAD'} {r['id']:34s} {r['property']} expect={r['expect']:10s} {verdict:8s} [{by}] {what}")
    print(json.dumps(dict(total=len(out), unexpected=bad)))
    return 1 if bad else 0


if __name__ == '__main__':
    sys.exit(main())
