#!/venv/bin/python
"""C07 - radiometric scale laws."""
import sys
from pathlib import Path
sys.path.insert(0, str(Path(__file__).resolve().parents[1]))
from harness.core import Run  # noqa: E402
from harness import synth, impl_kernel as ik, impl_fuse as fz  # noqa: E402
import numpy as np  # noqa: E402


def body(run):
    run.build(extra_targets=['theories/Corr/CheckC01.v'])
    rng = run.rng('scale')
    # (a) the model the theorems are about is the code: fit on base and on scaled inputs, inside Coq
    todo = []
    for _ in range(run.scale(24, 400)):
        c = ik.gen_case(rng, maxdim=8)
        todo.append(dict(c, note='base'))
        todo.append(dict(c, src=c['src'] * 4, note='source x 4'))
        todo.append(dict(c, ref=c['ref'] * 8, note='reference x 8'))
    bad, nt, ncorr = ik.corr_cases(run, todo)
    for m in bad[:5]:
        run.add_break('correspondence-break', 'KernelModel.fit differs from Kernel.Fit.fit_px on (scaled) inputs', m)
    # (b) paired end-to-end runs: powers of two make the law bit-exact
    dist = {}
    n = run.scale(30, 400)
    for k in range(n):
        g = synth.random_geom(rng, max_src=run.scale(30, 48))
        model = ik.MODELS[k % 3]
        kshape = rng.choice([(1, 1), (3, 3), (1, 3), (5, 3), (3, 5)]) if model != 'gain-offset' else rng.choice([(3, 3), (5, 3), (3, 5), (5, 5)])
        proc = rng.choice(['auto', 'auto', 'ref', 'src'])
        thresh = rng.choice([None, 0.25, 0.6]) if model == 'gain-offset' else 0.25
        sm = fz.src_mask(rng, g.src_shape, rng.choice(['none', 'border', 'holes']))
        # the source's invalid pixels are stored as NaN or as a fixed finite nodata value (which, unlike the data, does not scale)
        skw = [dict(encoding='nan'), dict(encoding='nodata', nodata=-9999.0), dict(encoding='nan'), dict(encoding='nodata', nodata=-1.0)][k % 4]
        pair = fz.make_pair(run.work, g, rng, smask=sm, tag='b', src_kw=skw)
        if k % 6 == 2:
            # small radiometric units AND a low-texture area (open water in reflectance units): the base pair itself is 2^-12 of the usual
            # data, with a patch where neighbouring values differ by one unit only - whatever absolute tolerance a fit compares a variance or a
            # denominator with, this patch is below it and its scaled copy is not
            s2, r2 = pair['src'].copy(), pair['ref'].copy()
            hs, ws = g.src_shape
            yy, xx = np.mgrid[0:hs, 0:ws]
            patch = (yy >= hs // 4) & (yy < hs // 4 + max(6, hs // 3)) & (xx >= ws // 4) & (xx < ws // 4 + max(6, ws // 3))
            s2[:, patch] = (100 + (yy + xx) % 2)[patch]
            yr, xr = np.mgrid[0:g.ref_shape[0], 0:g.ref_shape[1]]
            r2[:] = np.where(((yr + 2 * xr) % 3 == 0)[None], r2, 120 + ((yr + xr) % 2)[None])      # (mostly flat reference with sparse texture)
            pair = fz.make_pair(run.work, g, rng, src=s2 * np.float32(2.0 ** -12), ref=r2 * np.float32(2.0 ** -12), smask=sm, tag='b', src_kw=skw)
        ups = rng.choice(['cubic_spline', 'bilinear', 'nearest'])
        try:
            mbm = fz.block_mem_for(pair['src_fn'], pair['ref_fn'], proc, rng.choice([1, 2, 4, 9]), 1.1)
        except Exception as ex:
            dist['skipped:' + type(ex).__name__] = dist.get('skipped:' + type(ex).__name__, 0) + 1
            continue
        kw = dict(model=model, kernel_shape=kshape, proc_crs=proc, max_block_mem=mbm, threads=1,
                  model_config=dict(r2_inpaint_thresh=thresh, upsampling=ups))
        desc = dict(geom=g.describe(), source_encoding=skw, model=model, kernel_shape=list(kshape), proc_crs=proc, r2_inpaint_thresh=thresh,
                    upsampling=ups, max_block_mem=mbm)
        try:
            try:
                base = fz.fuse(pair['src_fn'], pair['ref_fn'], run.work / 'base.tif', **kw)
            except Exception as ex:
                if type(ex).__name__ != 'BlockSizeError':
                    raise
                kw['max_block_mem'] = desc['max_block_mem'] = mbm * 8
                base = fz.fuse(pair['src_fn'], pair['ref_fn'], run.work / 'base.tif', **kw)
        except Exception as ex:
            if type(ex).__name__ not in ('BlockSizeError', 'ImageContentError'):
                raise
            dist['base-error:' + type(ex).__name__] = dist.get('base-error:' + type(ex).__name__, 0) + 1
            continue
        # (small and large radiometric scales matter: reflectance in 0..1 against DN in 0..10000 - an absolute epsilon or threshold anywhere in the
        # fit shows only there; powers of two keep every float32 operation exact, so the comparison stays bit for bit)
        for which, fac in [('src', 4.0), ('ref', 8.0), ('src', 0.125), ('src', 2.0 ** -14), ('ref', 2.0 ** -12), ('src', 2.0 ** 10)][:run.scale(6, 6)]:
            p2 = fz.make_pair(run.work, g, rng, src=pair['src'] * (fac if which == 'src' else 1),
                              ref=pair['ref'] * (fac if which == 'ref' else 1), smask=sm, tag='s', src_kw=skw)
            sc = fz.fuse(p2['src_fn'], p2['ref_fn'], run.work / 'scaled.tif', **kw)
            kc = 1.0 if which == 'src' else fac
            key = f'{model}/{which}x{fac}/{base["proc_crs"]}'
            dist[key] = dist.get(key, 0) + 1
            run.count_case((k, which, fac), True, dict(desc, scaled=which, factor=fac) if k < 2 else None)
            problems = {}
            d = fz.first_diff(sc['corr']['array'], base['corr']['array'] * np.float32(kc))
            if d:
                problems['corrected'] = d
            if not np.array_equal(sc['corr']['mask'], base['corr']['mask']):
                problems['mask'] = 'corrected masks differ'
            nb = len(base['src_bands'])
            pa, pb = sc['param']['array'], base['param']['array']
            if not fz.same_arrays(pa[2 * nb:], pb[2 * nb:]):
                problems['r2'] = fz.first_diff(pa[2 * nb:], pb[2 * nb:])
            gfac = np.float32(kc / (fac if which == 'src' else 1.0))
            if not fz.same_arrays(pa[:nb], pb[:nb] * gfac):
                problems['gain'] = fz.first_diff(pa[:nb], pb[:nb] * gfac)
            if not fz.same_arrays(pa[nb:2 * nb], pb[nb:2 * nb] * np.float32(kc)):
                problems['offset'] = fz.first_diff(pa[nb:2 * nb], pb[nb:2 * nb] * np.float32(kc))
            if problems:
                run.add_violation(f'scale law broken: {which} x {fac}', dict(desc, scaled=which, factor=fac),
                                  expected='corrected x %g, masks and R2 identical' % kc, observed=problems,
                                  signature=dict(kind='scale', which=which, parts=sorted(problems)))
    run.cov['evaluations'] += ncorr
    run.cov['rule'] = ('paired real fusions (base, source x4, /8, x2^-14, x2^10, reference x8, x2^-12) over seeded geometries, 3 models, kernels incl. h != w, '
                       'in-paint thresholds, 3 processing grids, 1..9 blocks, compared bit for bit; plus the kernel correspondence on scaled '
                       'blocks; every paired run is non-trivial; distinct = distinct (geometry, model, factor)')
    run.extra['input_distribution'] = dict(pairs=dist, kernel_corr_cases=ncorr, kernel_corr_nontrivial=nt)
    run.assumptions += ['H_lin: GDAL resampling and fillnodata are positively homogeneous and leave masks unchanged under scaling '
                        '(exercised exactly by the power-of-two paired runs, not proved)',
                        'np.std / np.percentile are positively homogeneous (C07_block_norm hypothesis; exercised)']
    run.trusted += ['GDAL reproject / fillnodata / NumPy std, percentile: oracles with hypothesis H_lin']


if __name__ == '__main__':
    Run('C07').guard(body)
