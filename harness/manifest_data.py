"""Source of /verif/MANIFEST.json (python harness/manifest_data.py rewrites it)."""
import json
from pathlib import Path

VERIF = Path(__file__).resolve().parents[1]

CHECKS = {
    'C01': dict(
        text='Theorems (Coq over Q, every block shape, values, pair of masks, odd kernel incl. h != w): OpenCV box sums with ksize '
             '(kw, kh) of mask-zeroed arrays = sums over the jointly valid kh x kw window; gain = ratio of sums; gain-offset = OLS '
             '(closed form, cov/var, RSS-minimal among all lines); gain-blk-offset = block-normalised ratio for every (a, b); '
             'R2 = 1 - RSS/TSS of that window; the line passes through the window centroid for all three models and after ANY '
             'in-painted offset; no parameters off the joint mask. Tie: Kernel.Fit.fit_px is evaluated in Coq (exact Q) on the blocks '
             'the real KernelModel.fit was run on; float32 outputs must lie within a bound derived from the exact model values; '
             'an independent explicit-loop definition oracle runs on the implementation output.',
        note='float32 rounding is bounded, not proved; OpenCV box filters, np.std/percentile and fillnodata are modelled/observed '
             '(theorems hold for every value fillnodata could return).',
        technique='Coq proof (list-sum lemmas + field/lra over Q) + in-Coq correspondence (vm_compute, exact rationals) with KernelModel.fit',
        design='5/C01'),
    'C02': dict(
        text='Theorems (Coq over Q, every block, mask, odd kernel): if ref = a*x + b on the jointly valid pixels then gain (b = 0), gain-offset '
             '(OLS) and gain-blk-offset (with the block normalisation (a, b)) recover exactly (a, b) at every pixel, R2 = 1, and the corrected '
             'value is a*src + b; every pixel of the processing window is written exactly once. Tie: kernel model vs KernelModel.fit on exactly '
             'linear blocks (in Coq); real fusions whose reference is rewritten as a*x + b with x = the NaN-padded source down-sampled by the '
             'pipeline\'s own call: every valid source pixel must equal a*source + b to 2e-5 (1e-3 gain-offset) for ratios incl. 1.7/2.5/4.3, '
             'sub-pixel offsets, holes, kernels h != w, 1..40 blocks, threads {1,3}, per-band (a, b).',
        note='partial: H_up_const / H_down_avg (GDAL) exercised, not proved; float32 rounding bounded by the tolerances; block normalisation '
             'of an increasing affine relation = (a, b) is exercised (np.std / np.percentile).',
        technique='Coq proof (kernel-sum algebra, field) + correspondence + tight location-exact end-to-end oracle',
        design='5/C02'),
    'C03': dict(
        text='Theorems (Coq): a corrected pixel is valid only if the source pixel is, for ANY parameters (arbitrary resampling and fit); a valid '
             'source pixel with finite parameters is valid; for positive data the source kernel sum at a jointly valid pixel is > 0 (finite gain); '
             'every source pixel is written exactly once (C06); a valid pixel is lost by the encoding only on collision with nodata (C13); '
             'positivity is necessary (refutation witness). Tie: kernel model vs KernelModel.fit on positive masked data (in Coq); real fusions: '
             'dataset mask of the corrected image == dataset mask of the source, exactly, over geometries (x.5 / x.25 offsets over-sampled), '
             'masks (holes, islands, nearly empty blocks), 3 models, 3 grids, 1..30 blocks, 3 up-sampling kernels, 6 output encodings.',
        note='partial: the converse rests on GDAL validity rules (H_down_valid, H_up_local2). Known finding D13 (gain-offset degenerate window) '
             'is reported as KNOWN-FINDING.',
        technique='Coq proof (NaN propagation model, positivity of kernel sums) + correspondence + exact mask comparison end to end',
        design='5/C03'),
    'C04': dict(
        text='Meta-theorems (Coq, every list of guarded traces, any number of blocks, every schedule): mutual exclusion on every shared '
             'dataset; a block executes only its own trace; write order and accumulation order are irrelevant for disjoint windows. '
             'Per-run obligations by computation on the worker programs REGENERATED from the current source (translate/skeleton.py): '
             'every control path and every fault position of fuse / compare / stats workers is guarded, writes no shared state, locks are '
             'created once. Tie: regenerated model + runtime trace check in Coq (each observed per-block lock/access sequence must be an '
             'outcome of the generated program); real runs under a controlled random scheduler (2..8 threads) hashed against the '
             'single-threaded result and lockset-checked.',
        note='the GIL / GDAL internals are not modelled (protocol-level theorem); translator name map is trusted; compare/stats equality '
             'up to float32 accumulation order (1e-4 on r2), N exact.',
        technique='Coq meta-theorems over an interleaving semantics + model regenerated from source by a Python-ast translator + runtime trace correspondence',
        design='5/C04'),
    'C05': dict(
        text='Theorems (Coq): overlap_for_kernel k = (k+1)/2 >= half-kernel + 1; seam lemma - the fit (all sums, parameters, R2) at every '
             'pixel of an output window computed from the block read with the overlap equals the whole-image fit, for every image, mask, '
             'odd kernel (h != w), block position; ring-1 extension with the real overlap; input window = output window + overlap. '
             'Tie: kernel model vs KernelModel.fit on whole images and cut blocks (in Coq), overlap_for_kernel / validate_kernel_shape '
             'exhaustive small domain in Coq; paired real fusions 1 block vs 2..30 blocks (bit-identical on dyadic geometries, 1e-4 on '
             'general ones, cubic-spline differences must lie within one processing pixel of a block boundary).',
        note='partial: locality of GDAL resampling (H_down_local, H_up_local2) is exercised, not proved. Known finding D10 '
             '(footprint-edge sliver) is reported as KNOWN-FINDING.',
        technique='Coq proof (seam lemma from a general kernel-sum congruence) + correspondence + paired-run metamorphic oracle',
        design='5/C05'),
    'C06': dict(
        text='Theorems (Coq, unbounded in window, block shape, overlap): processing-grid output windows partition the processing '
             'window, input = output grown by overlap, other-grid output windows tile under one monotone corner map. The '
             'hand-written model is tied to the code by evaluating it inside Coq on the block lists the real block_pairs() '
             'yields for seeded geometries (bit-exact, incl. expand/round on doubles and _auto_block_shape); an independent '
             'cover-count oracle runs on the implementation windows.',
        note='partial: rasterio Affine/Window float arithmetic is an observed oracle; monotonicity of the corner map '
             '(H_monotone_bnd) is checked per case, not proved. Trusted: Coq kernel + vm_compute + PrimFloat, harness.',
        technique='Coq proof (induction + lia) over a hand-written Gallina model + in-Coq correspondence (vm_compute) with the real block_pairs()',
        design='5/C06'),
    'C07': dict(
        text='Theorem (Coq over Q, every block, mask, odd kernel, model, in-paint setting): source x kx, reference x ky (kx, ky > 0) '
             'leaves joint mask, R2 and the in-paint selection unchanged, multiplies gains by ky/kx, offsets by ky, and the corrected '
             'value by ky; the only thresholds are dimensionless; block normalisation moves as (ky/kx a, ky b). Tie: kernel model vs '
             'KernelModel.fit on base and scaled blocks (in Coq); paired real fusions with power-of-two factors compared bit for bit '
             '(corrected, masks, gains, offsets, R2) on 3 grids, 1..9 blocks.',
        note='partial: homogeneity of GDAL resampling, fillnodata, np.std/percentile (H_lin) is exercised exactly, not proved.',
        technique='Coq proof (homogeneity of kernel sums, field/lra over Q) + correspondence + paired-run metamorphic oracle',
        design='5/C07'),
    'C08': dict(
        text='Theorems (Coq): a masked read never returns a number stored under an invalid or outside pixel (for every window); the fit and '
             'every kernel sum are functions of (joint mask, values at jointly valid pixels) only. Tie: read model vs from_rio_dataset on '
             'four encodings with hidden values, kernel model vs KernelModel.fit with distinct source/reference masks (both in Coq); paired '
             'real fusions + comparisons over NaN / numeric nodata / internal mask / alpha encodings with hidden 0, 7, 200, 255, 1e30, -5, NaN '
             'must be bit-identical.',
        note='partial: H_valid_only for GDAL resampling is exercised, not proved; alpha only on integer images (GDAL rule).',
        technique='Coq proof (congruence of kernel sums on the joint mask; read_window spec) + correspondence + paired-run oracle',
        design='5/C08'),
    'C09': dict(
        text='Meta-theorems (Coq): no deadlock (progress), termination within the total trace length for every schedule, all locks free at '
             'the end, result() makes every block failure visible (pool and sequential), Ok means no block failed. Per-run obligations on the '
             'regenerated programs: every faulted trace (exception at any dataset call / local step, with Python unwinding) is guarded, a '
             'fault is always visible, an unfailed block performed every read and write, coordinators call result() and swallow nothing, '
             'output files close in finally, the three CLI commands convert exceptions to click.Abort. Tie: regenerated + runtime traces '
             'checked in Coq; fault injected at the k-th call on each dataset x block x thread count for fuse (with re-use of the reader), '
             'compare, stats and the CLI exit status.',
        note='liveness beyond the protocol (hang inside GDAL) is a wall-clock test; faults in tags/overviews/close are outside the property.',
        technique='Coq meta-theorems (invariant, progress, measure) + regenerated model + fault-injection correspondence',
        design='5/C09'),
    'C10': dict(
        text='Theorems (Coq): if both existence checks precede every open, then without overwrite an existing corrected or parameter file '
             'yields FileExistsError with the file system unchanged, str and Path alike; with overwrite the outputs are recreated whatever '
             'was there, and block writes make the content independent of the initial content. Per-run obligations on the regenerated '
             '_out_files / rio.open survey: checks first, both opened in w mode, closed in finally, paths coerced, no input path ever opened '
             'for writing. Tie: regenerated + run_entry evaluated in Coq against real process() calls; histories of 1..4 calls over '
             'pre-seeded directories with every file hashed before/after and successful calls compared with a fresh run; CLI runs.',
        note='format side-cars (.aux.xml/.msk/.ovr) whitelisted; GDAL truncation on open(w) trusted.',
        technique='Coq proof over a file-protocol model regenerated from source + history-based correspondence',
        design='5/C10'),
    'C11': dict(
        text='Theorems (Coq over Q): block sums accumulate to the sums over ALL jointly valid pixels for any partition into blocks and any '
             'completion order; N = their number; RMSE^2 = mean squared difference; r2 = cov^2/(var var) (squared Pearson); rRMSE^2 = '
             'RMSE^2 / mean(ref)^2; zero-overlap blocks partition the processing window. Tie: Stats.Compare evaluated in Coq on the pixel '
             'pairs of real file pairs whose processing-grid values are known exactly (same grid, aligned 2x/4x finer source; float32 sums '
             'exact) against RasterCompare.process (N exact, squares of the reported doubles to 1e-8), an exact-fraction oracle, and the '
             'single-block run; general geometries for block invariance.',
        note='partial: GDAL resampling is an oracle (H_down_local). Known finding D8 (forced finer grid: block-dependent RMSE/r2) is KNOWN-FINDING.',
        technique='Coq proof (list-sum algebra, field) + in-Coq correspondence with RasterCompare on exactly known pixel pairs',
        design='5/C11'),
    'C12': dict(
        text='Theorems (Coq over Q): min/max are attained bounds; mean; std^2 = population variance; in-paint % = 100 * #(R2 < threshold) / n; '
             'sums independent of tiling and completion order; the data-window pre-pass skips no pixel inside the bounding window. Tie: '
             'Stats.Param evaluated in Coq on the valid values per internal tile of synthetic parameter images (random float32, per-band '
             'masks, 3 models, thresholds incl. None, 4 tile layouts) and of images written by real fusions, against ParamStats.stats '
             '(1e-9; min/max exact), an exact-fraction oracle and single- vs multi-threaded runs.',
        note='hypothesis: valid pixels of every band lie inside the bounding window of band 1 (true for fuse output). D6 fixed (df78f2a), D17 (NaN std of a constant band) fixed (d2841f6).',
        technique='Coq proof (fold invariants for min/max, sum algebra) + in-Coq correspondence with ParamStats on real files',
        design='5/C12'),
    'C13': dict(
        text='Theorems (Coq): np.round modelled on rationals is a nearest integer with ties to even; every valid pixel of an integer output '
             'equals the float32 result rounded and SATURATED to the type range (never wrapped; +-inf to the range ends); invalid pixels '
             'carry nodata, or are flagged in the internal mask written with band 1 when nodata is null; a valid pixel reads back invalid '
             'exactly when its converted value equals nodata. Tie: Enc.Dtype evaluated in Coq on edge values (x.5 ties, +-1e10, +-3.4e38, '
             '+-inf, NaN) through _convert_array_dtype and through write + read-back for 7 dtypes x nodata; paired real fusions float32 vs '
             'integer/float64 outputs x GTiff tiled/striped/deflate/lzw/interleave and PNG: exact integer equality.',
        note='partial: lossless codecs trusted (H_codec).',
        technique='Coq proof (Qfloor-based rint, clamp) + in-Coq correspondence + paired-run exact comparison',
        design='5/C13'),
    'C14': dict(
        text='Theorems (Coq): the band index map (i, k) -> k*n + i + 1 is a bijection onto 1..3n with gain / offset / R2 of band i at i, n+i, '
             '2n+i; the description and the validator suffix of that band name parameter k; parameters exist exactly on the joint mask; '
             'corrected = gain * source + offset. Tie: layout, labels, validator acceptance and the band holding each parameter '
             '(identified by content through distinct per-band reference factors) checked in Coq on real multi-band fusions with permuted '
             'selections; parameter mask = joint mask; on the source grid corrected == gain*src + offset bit for bit.',
        note='degenerate gain-offset windows (OLS denominator 0: NaN parameters) are outside C01\'s hypotheses and excluded from the mask equality.',
        technique='Coq proof (integer arithmetic, lia/nia) + in-Coq correspondence on real parameter images',
        design='5/C14'),
    'C15': dict(
        text='Theorems (Coq, every band count, selection, metadata; greedy matcher generic in the distance type): equal lengths; matched '
             'source bands are a subsequence of the selection (all of it unless forced); reference bands come from the reference selection and '
             'none is used twice for a duplicate-free selection; the greedy loop is one-to-one and only stops when no pair with a distance '
             'is left; wavelength pairs are within tolerance, file-order pairs lack a wavelength on one side; selected bands exist and are '
             'neither alpha nor mask bands. Tie: Bands.Match.match_pair_bands (binary64 distances, NumPy argmin tie rules) evaluated in Coq '
             'against the real _match_pair_bands on 700 seeded metadata configurations (exact tuples / error classes), 10 % also through '
             'real files and RasterFuse; an independent clause-by-clause oracle on the implementation answers.',
        note='partial: "distinct nearest gets nearest / file-order invariance" is exercised (correspondence + example), not proved. Domain: '
             'wavelengths finite and > 0. Known finding D9 (duplicate user reference selection) reported as KNOWN-FINDING.',
        technique='Coq proof (induction on the greedy loop, list lemmas) + in-Coq correspondence (PrimFloat) with the real band matcher',
        design='5/C15'),
    'C16': dict(
        text='Theorems (Coq, rational geometry, unbounded): the covers_bounds decision is true iff the source footprint lies inside the '
             'reference footprint on all four sides (right/bottom to within the 1e-6 px float slack); containment / same grid is '
             'always accepted, any larger overhang always rejected. Tie: the decision model is evaluated in Coq bit-exactly (PrimFloat) '
             'and in Q on the windows rasterio produced for seeded file pairs and compared with covers_bounds; an independent '
             'exact-fraction containment oracle is compared with RasterPairReader/RasterFuse/RasterCompare construction.',
        note='rasterio window()/bounds and WarpedVRT bounds are observed oracles (exact on the dyadic 75 % of cases, checked in Coq); '
             'CRS re-projection is exercised only (south-up variant).',
        technique='Coq proof over Q (field/lra) + in-Coq correspondence with covers_bounds on real datasets',
        design='5/C16'),
    'C20': dict(
        text='Theorems (Coq, unbounded): bounded_window_slices is well-formed and equals window-intersect-dataset for EVERY integer '
             'window; read_window = pixels inside + nodata outside; write_window crops and geo-places; write-then-read; any sequence '
             'of block writes refines the last-writer-wins pixel map and is order-free for disjoint windows. Tie: the model is run in '
             'Coq on the same files/windows as from_rio_dataset/to_rio_dataset (6 encodings, all overlap relations, exact equality).',
        note='GDAL read/write/mask I/O is trusted to return what is stored (H_codec); float geo-transform placement of the written '
             'array is given to the model as an integer origin.',
        technique='Coq proof (lia, induction over write sequences) + in-Coq correspondence with real file I/O',
        design='5/C20'),
    'C17': dict(
        text='Theorems (Coq): erosion with the (kw+2, kh+2) element and zero border = "every pixel of the kernel window grown by one is inside '
             'the grid and set"; the partial mask at a source pixel holds exactly when the processing pixel it falls in and that whole window '
             'are jointly valid and completely covered; subset of the source mask; strictly smaller (a pixel with no set pixel above is removed); '
             'the erosion computed on one block equals the whole-image erosion at every position up to one pixel beyond the block output window '
             'when the overlap is at least erosion reach + 1 (C17_seam_sampling_safe; refuted for overlap = reach). Tie: Kernel.Morph evaluated in Coq '
             'against _full_coverage_mask on in-memory masks (input grid 1x/2x/4x finer) and the overlap process() hands to block_pairs checked in Coq; '
             'real fusions with mask_partial=True on aligned dyadic geometries, both grids, one vs many blocks: dataset mask == independently computed '
             'characterisation, strict subset, block independent; unaligned and tie geometries (pixel centres on processing-pixel edges): subset, '
             'strictness, block independence.',
        note='partial: H_down_avg (coverage >= 1 iff all overlapping pixels valid) and nearest re-projection are GDAL oracles; the exact '
             'characterisation is judged on aligned geometries only; `joint` is the parameter mask (degenerate gain-offset windows give NaN parameters). '
             'D5 fixed (f438c79), D14 fixed (71fa277).',
        technique='Coq proof (forallb over the structuring window) + in-Coq correspondence + exact mask oracle end to end',
        design='5/C17'),
    'C18': dict(
        text='Theorems (Coq): auto resolves to the coarser grid, explicit choices kept; combine_profiles keeps size / CRS / transform of the input '
             'profile for every configuration that does not name them; matched source bands are the selection in order (C15); per run '
             '(regenerated): model, kernel shape and every effective model / block setting flow into the FUSE_* tags of both outputs. Tie: real '
             'fusions with permuted, wavelength-tagged reference bands: geometry of both outputs, band count and order by content, every '
             'effective setting in the tags, wavelength tags copied, compare(corrected, reference) pairs, the Gallina matcher on the written '
             'metadata, processing-grid resolution in Coq; south-up storage of source / reference / both is bit-identical.',
        note='partial: geo-placement and WarpedVRT (H_vrt) are GDAL; the fuse -> compare round trip is exercised, not proved in general. '
             'Known finding D7 (colour-interpretation matches not recorded) is reported as KNOWN-FINDING.',
        technique='Coq proof (resolution rule, profile merge) + regenerated tags plumbing + correspondence on written metadata',
        design='5/C18'),
    'C19': dict(
        text='Finite theorems by computation on the click surface REGENERATED from the imported module on every run: every fuse / compare / '
             'stats option is a used named callback argument or a key of exactly one API configuration dictionary, every API key is an '
             'option, dictionaries disjoint, kernel is two integers HEIGHT WIDTH passed unchanged; proved for all keys and sources: command '
             'line > configuration file > default, unknown keys rejected, _update_existing_keys keeps exactly the API keys. Tie: regenerated '
             '+ merge model evaluated in Coq against the effective values of real CliRunner invocations; CLI vs API differential on random '
             'option combinations (pixels, masks, dtype/nodata, FUSE_* tags, names, JSON reports).',
        note='click parsing trusted. D11 (--nodata null overridden by the configuration file) fixed in 6bcd58d.',
        technique='Coq finite proofs over a regenerated CLI surface + merge model + CLI/API differential',
        design='5/C19'),
}

# what is regenerated from /repo's source on every run for a property (translate/formulas.py, translate/blocks.py) and proved equal to the model
REGEN = {
    'C01': 'every assignment / np.divide of _fit_gain_offset, _r2_array, _fit_gain, _fit_gain_blk_offset (gen/Formulas.v) is proved equal, by ring, to Kernel.Fit (C01_source_arithmetic_is_the_model, C01_source_r2_shape, C01_source_block_normalisation).',
    'C02': 'KernelModel.apply (gen/Formulas.v) is gain * source + offset (C02_source_apply_is_gain_src_plus_offset).',
    'C05': 'the overlap fuse hands to block_pairs (gen/Blocks.v) covers the kernel half-size + 1 (C05_source_overlap_covers_kernel).',
    'C06': 'the integer arithmetic of block_pairs (range of corners, in / out corners, loop order; gen/Blocks.v) is Grid.Window (C06_source_block_arithmetic_is_the_model).',
    'C11': 'the arithmetic of get_band_stats (gen/Formulas.v) is Stats.Compare.band_stats (C11_source_arithmetic_is_the_model).',
    'C12': 'the arithmetic of _get_image_stats (gen/Formulas.v), incl. the variance clamp, is Stats.Param.band_stats (C12_source_arithmetic_is_the_model).',
    'C13': 'the structure of _convert_array_dtype (round, clip, cast, re-mask; gen/Blocks.v) is the one Enc.Dtype models (C13_source_convert_structure).',
    'C14': 'band index arithmetic, label loop, validator suffixes and the two windowed writes of _process_block (gen/Blocks.v) are Grid.Layout (C14_source_layout).',
    'C17': 'the overlap with partial masking and the structure of _full_coverage_mask (gen/Blocks.v) (C17_source_overlap_with_partial_masking, C17_source_partial_mask_structure).',
    'C20': 'bounded_window_slices (gen/Blocks.v) is Grid.Window.bounded_axis on each axis (C20_source_bounded_window_slices).',
}

NOT_YET = 'check not built yet in this revision (planned: see DESIGN.md section 5)'


def main():
    ids = [json.loads(l)['id'] for l in (VERIF / 'properties.jsonl').read_text().splitlines() if l.strip()]
    checks = []
    for pid in ids:
        if pid not in CHECKS:
            continue
        c = dict(CHECKS[pid])
        if pid in REGEN:
            c['text'] += ' Regenerated tie: ' + REGEN[pid]
            c['technique'] += ' + source arithmetic regenerated into Gallina on every run and proved equal to the model'
        checks.append(dict(
            property_id=pid,
            quick_cmd=f'./bin/check {pid} --tier quick',
            thorough_cmd=f'./bin/check {pid} --tier thorough',
            evidence_file=f'/verif/evidence/{pid}.json',
            replay_cmd_template=f'./bin/check {pid} --replay {{path}}',
            engine='coq-proof+correspondence',
            level_claimed=dict(category='proof', text=c['text'], design_ref=c['design']),
            level_note=c['note'],
            technique=c['technique'],
        ))
    man = dict(
        version=1,
        setup_cmd='./bin/setup',
        hooks=dict(guard='HOMONIM_VERIF', enable='HOMONIM_VERIF=1 only switches the harness interposers on; no source hook exists in /repo',
                   baseline_off_cmd='./bin/baseline', source_commits=[], add_only=True),
        engines=[dict(name='coq-proof+correspondence', path='/verif/coq + /verif/harness',
                      serves_properties=[c['property_id'] for c in checks],
                      kind_free_text='Coq 8.16 development (theories/, gen/ regenerated per run) + Python drivers running the real code; '
                                     'model evaluated inside Coq by vm_compute on the implementation\'s inputs')],
        checks=checks,
        notes='See DESIGN.md. Every check rebuilds the Coq closure of its property, re-runs the correspondence against /repo\'s working tree and an independent oracle on the implementation.',
        not_applicable=[dict(property_id=pid, reason=NOT_YET) for pid in ids if pid not in CHECKS],
    )
    (VERIF / 'MANIFEST.json').write_text(json.dumps(man, indent=1) + '\n')


if __name__ == '__main__':
    main()
