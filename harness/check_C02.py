#!/venv/bin/python
"""C02 - end to end: an exact linear source-reference relation is recovered in place."""
import sys
from pathlib import Path
sys.path.insert(0, str(Path(__file__).resolve().parents[1]))
from harness.core import Run  # noqa: E402
from harness import synth, impl_fuse as fz, impl_kernel as ik, impl_e2e as e2e  # noqa: E402
import numpy as np  # noqa: E402

NAN = float('nan')


def body(run):
    run.build(extra_targets=['theories/Corr/CheckC01.v'])
    rng = run.rng('linear')
    # (a) the kernel model on exactly linear blocks (ties Kernel.Fit to the code on the inputs the theorems speak about)
    todo = []
    for _ in range(run.scale(30, 500)):
        c = ik.gen_case(rng, maxdim=9)
        a, b = rng.choice([(2, 0), (1, 3), (3, 5), (2, 1)])
        if c['model'] == 'gain':
            b = 0
        vmax = int(np.nanmax(np.where(np.isnan(c['src']), 0, c['src']))) or 1
        src = np.where(np.isnan(c['src']), np.nan, np.abs(c['src']) % max(2, min(vmax, 40)) + 1).astype('float32')
        todo.append(dict(c, src=src, ref=np.where(np.isnan(c['ref']), np.nan, a * src + b).astype('float32'), note=f'ref = {a} * src + {b}'))
    bad, nt, ncorr = ik.corr_cases(run, todo)
    for m in bad[:5]:
        run.add_break('correspondence-break', 'KernelModel.fit differs from Kernel.Fit.fit_px on an exactly linear block', m)
    # (b) end to end
    dist = {}
    for k in range(run.scale(30, 600)):
        model = ik.MODELS[k % 3]
        nb = rng.choice([1, 1, 2, 3])
        kshape = rng.choice([(3, 3), (1, 3), (5, 3), (3, 5), (5, 5), (7, 3)])
        if model != 'gain-offset' and rng.random() < 0.2:
            kshape = (1, 1)
        if model == 'gain-offset' and kshape[0] * kshape[1] < 9:
            kshape = (3, 3)      # OLS on a 3-pixel window is too ill-conditioned for a tight float32 comparison
        # the processing grid must be the reference grid for x to be defined this way: source finer or equal
        for _try in range(20):
            g = synth.random_geom(rng, max_src=run.scale(36, 56)) if k % 3 else synth.aligned_geom(rng, run.scale(36, 56))
            # source finer or equal, and a processing window of at least 6 x 6 pixels (well-conditioned kernel windows)
            if g.ratio >= 1 and min(g.src_shape) / g.ratio >= 6:
                break
        sm = fz.src_mask(rng, g.src_shape, rng.choice(['none', 'holes', 'border', 'islands', 'corner']))
        coeffs = [(rng.choice([0.5, 1.5, 2.0, 3.25]), 0.0 if model == 'gain' else rng.choice([0.0, 4.0, 17.5, -6.0])) for _ in range(nb)]
        try:
            pair = e2e.linear_pair(run.work, rng, g, nb, coeffs, sm)
            mbm, nblk = fz.pick_block_mem(pair['src_fn'], pair['ref_fn'], 'auto', rng.choice([1, 1, 4, 9, 25, 40]), kshape)
        except Exception as ex:
            dist['skipped:' + type(ex).__name__] = dist.get('skipped:' + type(ex).__name__, 0) + 1
            continue
        if not e2e.blockwise_x_consistent(pair, mbm, kshape):
            # premise not met: some block sees a different x at the footprint edge than the x the reference was built from (D10 sliver)
            dist['excluded:block-x-differs(D10)'] = dist.get('excluded:block-x-differs(D10)', 0) + 1
            continue
        threads = rng.choice([1, 3])
        ups = rng.choice(['cubic_spline', 'cubic_spline', 'bilinear', 'nearest'])
        desc = dict(geom=g.describe(), model=model, kernel_shape=list(kshape), bands=nb, coefficients=coeffs, max_block_mem=mbm, blocks=nblk,
                    threads=threads, upsampling=ups)
        res = fz.fuse(pair['src_fn'], pair['ref_fn'], run.work / 'lin.tif', model=model, kernel_shape=kshape, proc_crs='auto', max_block_mem=mbm,
                      threads=threads, param=False, model_config=dict(r2_inpaint_thresh=0.25, upsampling=ups), force=(nb == 3))
        if res['proc_crs'] != 'ref':
            continue
        key = f'{model}/{ups}/blocks={"1" if nblk == 1 else ">1"}/ratio={g.ratio:g}'
        dist[key] = dist.get(key, 0) + 1
        run.count_case((k,), nblk > 1 or g.ratio != int(g.ratio), desc if len(run.cov['samples']) < 3 else None)
        # gain-offset on a 3-pixel window amplifies float32 rounding (measured 1.2e-3): 5e-3 there, 1e-3 for windows of >= 9 pixels
        tol = 1e-3 if model == 'gain-offset' else 2e-5
        C = res['corr']['array'].astype('float64')
        worst = None
        for b in range(nb):
            a, c = coeffs[b]
            exp = a * pair['src'][b].astype('float64') + c
            valid = pair['smask']
            got = C[b]
            err = np.abs(got - exp) / (np.abs(exp) + 1.0)
            bad_px = valid & ~(err <= tol)          # NaN counts as wrong: every valid source pixel must be corrected
            if bad_px.any():
                r, cc = [int(v) for v in np.argwhere(bad_px)[0]]
                worst = dict(band=b + 1, pixel=[r, cc], corrected=float(got[r, cc]), expected=float(exp[r, cc]), n_bad=int(bad_px.sum()),
                             tolerance=tol)
                break
        if worst:
            run.add_violation('corrected image differs from a * source + b although the reference is exactly a * x + b', desc, observed=worst,
                              signature=dict(kind='linear-recovery', model=model, nan=bool(np.isnan(worst['corrected']))))
    # (c) processing on the SOURCE grid (x = the source itself): same-grid pairs (reference = a * source + b on the source's window of the
    #     reference grid, arbitrary valid values around it and UNDER the source's invalid pixels), the source's invalid pixels stored as NaN, as a
    #     numeric nodata value or under an internal mask, several blocks
    for k in range(run.scale(12, 120)):
        model = ik.MODELS[k % 3]
        kshape = rng.choice([(3, 3), (1, 3), (5, 3), (3, 5)]) if model != 'gain-offset' else rng.choice([(3, 3), (5, 3), (3, 5)])
        res_ = rng.choice([0.5, 1.0, 2.0])
        sh = (rng.randint(14, 30), rng.randint(14, 30))
        off = (rng.randint(1, 4), rng.randint(1, 4))
        g = synth.Geom(res_, 1, *rng.choice([(16.0, 48.0), (4.0, 100.0)]), (off[0] + sh[0] + rng.randint(1, 4), off[1] + sh[1] + rng.randint(1, 4)), off, sh)
        a, c = rng.choice([0.5, 1.5, 2.0, 3.25]), (0.0 if model == 'gain' else rng.choice([0.0, 4.0, 17.5]))
        src = fz.texture(rng, sh, 1, lo=20, hi=200)
        sm = fz.src_mask(rng, sh, rng.choice(['holes', 'holes', 'border', 'islands']))
        ref = fz.texture(rng, g.ref_shape, 1, lo=30, hi=180).astype('float64')
        ref[0, off[0]:off[0] + sh[0], off[1]:off[1] + sh[1]] = a * src[0].astype('float64') + c
        enc = [dict(encoding='nan'), dict(encoding='nodata', nodata=-9999.0), dict(encoding='nodata', nodata=0.0), dict(encoding='mask', hidden=77.0)][k % 4]
        sfn, rfn = run.work / 'sg_src.tif', run.work / 'sg_ref.tif'
        synth.write_tif(sfn, src, g.src_transform, mask=sm, **enc)
        synth.write_tif(rfn, ref.astype('float32'), g.ref_transform)
        try:
            # (equal resolutions: `auto` resolves to the reference grid, which here coincides with the source grid pixel for pixel)
            pc = ['src', 'auto', 'src', 'ref'][(k // 3) % 4]
            mbm, nblk = fz.pick_block_mem(sfn, rfn, pc, rng.choice([1, 4, 9]), kshape)
            res = fz.fuse(sfn, rfn, run.work / 'sg.tif', model=model, kernel_shape=kshape, proc_crs=pc, max_block_mem=mbm, threads=rng.choice([1, 3]),
                          param=False, model_config=dict(r2_inpaint_thresh=0.25))
        except Exception as ex:
            dist['skipped:' + type(ex).__name__] = dist.get('skipped:' + type(ex).__name__, 0) + 1
            continue
        desc = dict(geom=g.describe(), model=model, kernel_shape=list(kshape), coefficients=[a, c], processing_grid=res['proc_crs'], requested_grid=pc, source_encoding=enc, blocks=nblk,
                    max_block_mem=mbm)
        key = f'same-grid/{res["proc_crs"]}/{model}/{enc.get("encoding")}{enc.get("nodata", "")}'
        dist[key] = dist.get(key, 0) + 1
        run.count_case(('sg', k), True, desc if k < 2 else None)
        exp = a * src[0].astype('float64') + c
        got = res['corr']['array'][0].astype('float64')
        tol = 1e-3 if model == 'gain-offset' else 2e-5
        bad_px = sm & ~(np.abs(got - exp) / (np.abs(exp) + 1.0) <= tol)
        if bad_px.any():
            r, cc = [int(v) for v in np.argwhere(bad_px)[0]]
            run.add_violation('corrected image differs from a * source + b although the reference is exactly a * x + b', desc,
                              observed=dict(pixel=[r, cc], corrected=float(got[r, cc]), expected=float(exp[r, cc]), n_bad=int(bad_px.sum()), tolerance=tol),
                              signature=dict(kind='linear-recovery', model=model, nan=bool(np.isnan(got[r, cc])), grid='src'))
    run.cov['evaluations'] += ncorr
    # ---- bands with different footprints, several blocks: every band recovers ITS relation wherever that band is valid
    for k in range(run.scale(3, 12)):
        model = ['gain-offset', 'gain-blk-offset'][k % 2]
        bc = e2e.band_footprints_case(run.work, rng, model=model, tag='bf', threads=[1, 2][k % 2])
        C = bc['res']['corr']['array']
        run.count_case(('bf', k), True, bc['desc'] if k < 1 else None)
        for b, (a, c) in enumerate(bc['coeffs']):
            exp = a * bc['src'][b].astype('float64') + c
            with np.errstate(invalid='ignore'):
                bad = bc['valid'][b] & ~(np.abs(C[b].astype('float64') - exp) <= 2e-3 * (1 + np.abs(exp)))
            if model == 'gain-offset':
                # (fewer than two valid pixels in the window: no gain-offset solution, D13 - not this property's subject)
                pad = np.pad(bc['valid'][b], 1)
                cnt = sum(pad[i:i + bad.shape[0], j:j + bad.shape[1]].astype(int) for i in range(3) for j in range(3))
                bad &= cnt >= 2
            if bad.any():
                r, c_ = (int(v) for v in np.argwhere(bad)[0])
                run.add_violation('corrected image differs from a * source + b although the reference is exactly a * x + b', bc['desc'],
                                  observed=dict(band=b + 1, pixel=[r, c_], corrected=float(C[b, r, c_]), expected=float(exp[r, c_]), n=int(bad.sum())),
                                  signature=dict(kind='linear', model=model, grid='src'))
                break
    # ---- a tiny island of valid pixels alone in its block: the relation is recovered there as everywhere else (the block's own normalisation,
    #      however few pixels it rests on)
    for k in range(run.scale(4, 12)):
        n_isl = [6, 3, 9, 2, 5, 4][k % 6]
        ic_ = e2e.island_case(run.work, rng, n_isl, model='gain-blk-offset', tag='isl', threads=[1, 2][k % 2])
        C = ic_['res']['corr']['array'][0].astype('float64')
        run.count_case(('isl', k), True, ic_['desc'] if k < 1 else None)
        if ic_['nblk'] < 4:
            continue
        exp = ic_['a'] * ic_['src'][0].astype('float64') + ic_['b']
        with np.errstate(invalid='ignore'):
            bad = ic_['smask'] & ~(np.abs(C - exp) <= 2e-3 * (1 + np.abs(exp)))
        if bad.any():
            r, c_ = (int(v) for v in np.argwhere(bad)[0])
            run.add_violation('corrected image differs from a * source + b although the reference is exactly a * x + b', ic_['desc'],
                              observed=dict(pixel=[r, c_], corrected=float(C[r, c_]), expected=float(exp[r, c_]), n=int(bad.sum()), on_the_island=int((bad & ic_['island']).sum())),
                              signature=dict(kind='linear', model='gain-blk-offset', grid='src'))
    run.cov['rule'] = ('real fusions where the reference is rewritten as a * x + b (x = the NaN-padded source down-sampled with the pipeline\'s own call), '
                       'per band (a, b), ratios {1, 1.7, 2, 2.5, 3, 4.3}, sub-pixel offsets, origins up to 7.6e6, holes / borders / islands, kernels incl. h != w, '
                       '1..40 blocks, threads {1, 3}, 3 up-sampling kernels: every valid source pixel must equal a * source + b to 2e-5 (1e-3 gain-offset) '
                       'relative; plus the kernel correspondence on linear blocks; non-trivial = several blocks or non-integer ratio')
    run.extra['input_distribution'] = dict(runs=dist, kernel_corr_cases=ncorr, kernel_corr_nontrivial=nt)
    run.assumptions += ['H_up_const: up-sampling a parameter field that is constant on its valid support returns that constant (GDAL; exercised)',
                        'H_down_avg / H_down_local: x computed over the whole window equals x computed per block (exercised)']
    run.trusted += ['GDAL resampling; float32 rounding bounded by the stated tolerances']
    run.finish()


if __name__ == '__main__':
    Run('C02').guard(body)
