#!/venv/bin/python
"""C04 - results do not depend on thread count or block interleaving."""
import math
import sys
from pathlib import Path
sys.path.insert(0, str(Path(__file__).resolve().parents[1]))
from harness.core import Run  # noqa: E402
from harness import synth, impl_fuse as fz, impl_conc as ic, interpose as ip, impl_kernel as ik  # noqa: E402
import random  # noqa: E402


def stats_close(a, b, tol=1e-9):
    if isinstance(a, dict):
        return set(a) == set(b) and all(stats_close(a[k], b[k], tol) for k in a)
    if isinstance(a, list):
        return len(a) == len(b) and all(stats_close(x, y, tol) for x, y in zip(a, b))
    if isinstance(a, (int,)) or isinstance(a, str) or a is None:
        return a == b          # N (and any other integer) must be exactly equal
    a, b = float(a), float(b)
    if math.isnan(a) or math.isnan(b):
        return math.isnan(a) and math.isnan(b)
    if a == b:
        return True
    return abs(a - b) <= tol * max(1.0, abs(a), abs(b))


def body(run):
    run.regenerate()
    run.build(extra_targets=['theories/Corr/CheckC04.v'])
    rng = run.rng('sched')
    cases, metas, dist = [], [], {}
    ngeo = run.scale(8, 40)
    nsched = run.scale(6, 40)
    for gi in range(ngeo):
        g = synth.random_geom(rng, max_src=run.scale(30, 44)) if gi % 2 else synth.aligned_geom(rng, run.scale(30, 44))
        model = ik.MODELS[(gi + 1) % 3]
        kshape = rng.choice([(3, 3), (1, 3), (5, 3)])
        with_param = gi % 4 != 3
        mkind = rng.choice(['none', 'holes', 'border', 'sparse-block', 'sparse-block'])
        proc = rng.choice(['auto', 'auto', 'src', 'ref'])
        nblk_target = rng.choice([4, 6, 9, 16])
        if gi % 4 == 1:
            # state carried from one block to another shows where blocks differ most: a per-block model, many small blocks, some of them
            # nearly empty (a handful of valid pixels), large kernel
            g = synth.aligned_geom(rng, run.scale(40, 56))
            model, mkind, proc, nblk_target, kshape = 'gain-blk-offset', 'sparse-block', 'auto', rng.choice([16, 32]), rng.choice([(3, 3), (5, 5)])
        pair = fz.make_pair(run.work, g, rng, smask=fz.src_mask(rng, g.src_shape, mkind), tag='c')
        if gi % 8 == 5:
            # ... and a reference that is flat over a whole corner of the image (a saturated or filled area): blocks there have no block
            # normalisation of their own - whatever they get instead must not come from whichever block happened to be fitted before them
            ref_ = pair['ref'].copy()
            ref_[:, ref_.shape[1] // 2:, ref_.shape[2] // 2:] = 150
            pair = fz.make_pair(run.work, g, rng, src=pair['src'], ref=ref_, smask=pair['smask'], tag='c')
        try:
            mbm, _nb = fz.pick_block_mem(pair['src_fn'], pair['ref_fn'], proc, nblk_target, kshape)
            kw = dict(model=model, kernel_shape=kshape, proc_crs=proc, max_block_mem=mbm, param=with_param)
            base = fz.fuse(pair['src_fn'], pair['ref_fn'], run.work / 'base.tif', threads=1, **kw)
        except Exception as ex:
            dist['skipped:' + type(ex).__name__] = dist.get('skipped:' + type(ex).__name__, 0) + 1
            continue
        bd = ic.digest(base)
        desc0 = dict(geom=g.describe(), model=model, kernel_shape=list(kshape), proc_crs=proc, max_block_mem=mbm, param_image=with_param)
        for si in range(nsched):
            threads = rng.choice([2, 2, 3, 4, 8])
            seed = rng.randrange(10 ** 9)
            order = ('fifo', 'lifo', 'shuffle')[si % 3]
            r = ic.run_fuse(pair, run.work / 'sched.tif', rng=random.Random(seed), threads=threads, task_order=order, **kw)
            ntasks = sum(1 for e in r['rec'].events if e[2] == 'task-start')
            desc = dict(desc0, threads=threads, schedule_seed=seed, task_order=order, blocks=ntasks, schedule_prefix=[str(c)[-4:] for c in r['rec'].sched.choices[:12]])
            key = f'fuse/{model}/threads={threads}/param={with_param}'
            dist[key] = dist.get(key, 0) + 1
            run.count_case(('fuse', gi, seed, threads), ntasks >= 2, desc if len(run.cov['samples']) < 3 else None)
            if r['outcome'] != 'ok':
                run.add_violation('fuse failed / hung under a forced schedule', desc, observed=r['outcome'], signature=dict(kind='sched-outcome', what=r['outcome'].split(':')[0]))
                continue
            if ic.digest(r['result']) != bd:
                d = fz.first_diff(r['result']['corr']['array'], base['corr']['array'])
                run.add_violation('output differs from the single-threaded result under a forced schedule', desc,
                                  expected=bd, observed=dict(digest=ic.digest(r['result']), first_diff=d), signature=dict(kind='sched-output', part='fuse'))
            for v in ip.lockset_violations(r['rec'])[:1]:
                run.add_violation(v['why'], desc, observed=v, signature=dict(kind='lockset', dataset=v['dataset']))
            for tk, c in ic.trace_cases(r['rec'], 0):
                cases.append(c)
                metas.append(dict(desc, task=tk, observed_codes=c[2:]))
        # compare and stats under schedules
        cbase = fz.compare(pair['src_fn'], pair['ref_fn'], proc_crs=proc, threads=1, max_block_mem=mbm)
        for si in range(max(2, nsched // 2)):
            threads = rng.choice([2, 3, 8])
            seed = rng.randrange(10 ** 9)
            r = ic.run_compare(pair['src_fn'], pair['ref_fn'], rng=random.Random(seed), threads=threads, max_block_mem=mbm, proc_crs=proc)
            desc = dict(desc0, what='compare', threads=threads, schedule_seed=seed)
            dist['compare'] = dist.get('compare', 0) + 1
            run.count_case(('cmp', gi, seed), True, None)
            if r['outcome'] != 'ok' or not stats_close(r['stats'], cbase['stats'], tol=1e-4):   # float32 block sums: accumulation order
                run.add_violation('comparison statistics depend on the schedule', desc, expected=cbase['stats'],
                                  observed=dict(outcome=r['outcome'], stats=r['stats']), signature=dict(kind='sched-output', part='compare'))
            for v in ip.lockset_violations(r['rec'])[:1]:
                run.add_violation(v['why'], desc, observed=v, signature=dict(kind='lockset', dataset=v['dataset']))
            for tk, c in ic.trace_cases(r['rec'], 1):
                cases.append(c)
                metas.append(dict(desc, task=tk, observed_codes=c[2:]))
        if with_param:
            pfn = run.work / 'base_PARAM.tif'
            sbase = ic.run_stats(pfn, rng=None, threads=1)
            for si in range(max(2, nsched // 2)):
                threads = rng.choice([2, 4])
                seed = rng.randrange(10 ** 9)
                r = ic.run_stats(pfn, rng=random.Random(seed), threads=threads)
                desc = dict(desc0, what='stats', threads=threads, schedule_seed=seed)
                dist['stats'] = dist.get('stats', 0) + 1
                run.count_case(('stats', gi, seed), True, None)
                # (a parameter image without a single valid pixel makes stats() raise - with every schedule, also single-threaded: same outcome)
                if r['outcome'] != sbase['outcome'] or (r['outcome'] == 'ok' and not stats_close(r['stats'], sbase['stats'])):
                    run.add_violation('parameter statistics depend on the schedule', desc, expected=sbase['stats'],
                                      observed=dict(outcome=r['outcome'], stats=r['stats'], traceback=r.get('traceback')), signature=dict(kind='sched-output', part='stats'))
                for v in ip.lockset_violations(r['rec'], any_lock_ok_for=('stats',))[:1]:
                    run.add_violation(v['why'], desc, observed=v, signature=dict(kind='lockset', dataset=v['dataset']))
                # both phases (data window, sums) run in one call: tasks of the first pool are window workers
                for tk, c in ic.trace_cases(r['rec'], lambda t: 2 if t.startswith('p1t') else 3, default_lock=4):
                    cases.append(c)
                    metas.append(dict(desc, task=tk, observed_codes=c[2:]))
    # ---- state shared between the blocks of DIFFERENT bands: one internal mask for the whole file (output nodata = None).  Two bands whose
    #      invalid pixels differ: whatever the rule for the file's mask is, it must not depend on which band's block is written last
    for mi in range(run.scale(4, 12)):
        g = synth.aligned_geom(rng, run.scale(36, 48))
        src = fz.texture(rng, g.src_shape, 2)
        for b in range(2):
            for _ in range(rng.randint(2, 5)):
                r0, c0 = rng.randrange(g.src_shape[0]), rng.randrange(g.src_shape[1])
                src[b, r0:r0 + rng.randint(2, 8), c0:c0 + rng.randint(2, 8)] = -9999.0
        pair = fz.make_pair(run.work, g, rng, bands=2, src=src, tag='m', src_kw=dict(encoding='nodata', nodata=-9999.0))
        try:
            mbm, _nb = fz.pick_block_mem(pair['src_fn'], pair['ref_fn'], 'auto', rng.choice([6, 9, 16]), (3, 3) if mi % 2 == 0 else (5, 5))
            kw = dict(model='gain', kernel_shape=(3, 3), proc_crs='auto', max_block_mem=mbm, param=False, out_profile=dict(nodata=None))
            if mi % 2 == 1:
                # ... and with partial masking: the coverage mask of a block belongs to THAT block's band (anything a model object keeps between
                # fit and apply is shared by all blocks in flight)
                kw = dict(model='gain', kernel_shape=(3, 3), proc_crs='auto', max_block_mem=mbm, param=False, model_config=dict(mask_partial=True))
            base = fz.fuse(pair['src_fn'], pair['ref_fn'], run.work / 'mbase.tif', threads=1, **kw)
        except Exception as ex:
            dist['skipped:' + type(ex).__name__] = dist.get('skipped:' + type(ex).__name__, 0) + 1
            continue
        bd = ic.digest(base)
        for si in range(nsched + 4):
            threads = rng.choice([2, 3, 4])
            seed = rng.randrange(10 ** 9)
            # the first two schedules take the tasks in reverse / shuffled submission order (every block of band 2 before band 1's), the others in
            # submission order with random switches: completion order is not promised by the executor
            order = ('lifo', 'shuffle', 'by-window', 'by-window')[si] if si < 4 else 'fifo'       # (by-window: the two bands' blocks of one window side by side)
            if si == 3:
                threads = 2
            r = ic.run_fuse(pair, run.work / 'msched.tif', rng=random.Random(seed), threads=threads, task_order=order, **kw)
            desc = dict(geom=g.describe(), bands=2, per_band_nodata_holes=True, out_profile=kw.get('out_profile'), model_config=kw.get('model_config'), model='gain', kernel_shape=[3, 3],
                        max_block_mem=mbm, threads=threads, schedule_seed=seed, task_order=order)
            dist['fuse/2-band internal mask'] = dist.get('fuse/2-band internal mask', 0) + 1
            run.count_case(('fuse-mask', mi, seed, threads), True, None)
            if r['outcome'] != 'ok':
                run.add_violation('fuse failed / hung under a forced schedule', desc, observed=r['outcome'], signature=dict(kind='sched-outcome', what=r['outcome'].split(':')[0]))
            elif ic.digest(r['result']) != bd:
                dm = r['result']['corr']['mask'] != base['corr']['mask']
                run.add_violation('output differs from the single-threaded result under a forced schedule', desc, expected=bd,
                                  observed=dict(mask_pixels_differing=int(dm.sum()), first_diff=fz.first_diff(r['result']['corr']['array'], base['corr']['array'])),
                                  signature=dict(kind='sched-output', part='fuse'))
            for v in ip.lockset_violations(r['rec'])[:1]:
                run.add_violation(v['why'], desc, observed=v, signature=dict(kind='lockset', dataset=v['dataset']))
    failing, nt = run.corr('traces', 'Corr.CheckC04', cases, shard=600)
    for k in failing[:5]:
        run.add_break('correspondence-break', 'a block performed a lock / dataset-access sequence that is not an outcome of the generated worker program', metas[k])
    run.cov['rule'] = ('real fusions, comparisons and statistics run with the ThreadPoolExecutor replaced by a controlled random scheduler '
                       '(one thread runs between yield points = lock acquisitions and dataset calls; next thread chosen by a seeded RNG), '
                       'thread counts 2..8, 4..16 blocks: outputs hashed against the single-threaded run, every dataset call checked for '
                       'its lock, every observed per-block trace checked in Coq against the generated program; non-trivial = >= 2 blocks; '
                       'distinct = distinct (geometry, schedule seed, thread count)')
    run.extra['input_distribution'] = dict(runs=dist, observed_block_traces=len(cases), model_nontrivial=nt)
    run.trusted += ['Python with / try-finally / ThreadPoolExecutor / as_completed / Future.result semantics as encoded in Conc/IR.v, Conc/Sem.v',
                    'the GIL and GDAL internals are not modelled: the theorem is about the locking protocol, the trace check shows the code follows it',
                    'name map of translate/skeleton.py (which expressions denote the shared datasets and locks)']


if __name__ == '__main__':
    Run('C04').guard(body)
