"""End-to-end helpers for C02 / C03: the source 'as seen on the processing grid' and linear reference construction."""
import warnings

import numpy as np
import rasterio as rio

from harness import synth, impl_fuse as fz

warnings.filterwarnings('ignore')
NAN = float('nan')


def source_on_proc_grid(src_fn, ref_fn, downsampling='average'):
    """x = the source as the pipeline sees it on the reference grid: the NaN-padded (boundless) source window down-sampled with the very
    call RefSpaceModel.fit makes, over the whole processing window at once.  Returns (x (bands, H, W) on the reference window, window)."""
    from homonim.raster_pair import RasterPairReader
    from homonim.raster_array import RasterArray
    from homonim.enums import ProcCrs
    from rasterio.enums import Resampling
    with RasterPairReader(src_fn, ref_fn, proc_crs=ProcCrs.ref) as rd:
        rw, sw = rd._ref_win, rd._src_win
        xs = []
        for bi in rd.src_bands:
            src_ra = RasterArray.from_rio_dataset(rd._src_im, indexes=bi, window=sw)
            ref_ra = RasterArray.from_rio_dataset(rd._ref_im, indexes=rd.ref_bands[0], window=rw)
            x_ra = src_ra.reproject(**ref_ra.proj_profile, resampling=Resampling[downsampling])
            xs.append(np.array(x_ra.array))
        return np.stack(xs), rw


def linear_pair(work, rng, g, nbands, coeffs, smask, tag='l'):
    """Source + reference with ref = a * x + b wherever x (source on the reference grid) is valid; arbitrary valid values elsewhere."""
    src = fz.texture(rng, g.src_shape, nbands, lo=20, hi=200)
    ref0 = fz.texture(rng, g.ref_shape, nbands, lo=30, hi=180)
    sfn, rfn = work / f'{tag}_src.tif', work / f'{tag}_ref.tif'
    synth.write_tif(sfn, src, g.src_transform, mask=smask)
    synth.write_tif(rfn, ref0, g.ref_transform)
    x, rw = source_on_proc_grid(sfn, rfn)
    ref = ref0.astype('float64').copy()
    r0, c0 = int(rw.row_off), int(rw.col_off)
    H, W = g.ref_shape
    for b in range(nbands):
        a, c = coeffs[b]
        for i in range(x.shape[1]):
            for j in range(x.shape[2]):
                rr, cc = r0 + i, c0 + j
                if 0 <= rr < H and 0 <= cc < W and not np.isnan(x[b, i, j]):
                    ref[b, rr, cc] = a * float(x[b, i, j]) + c
    synth.write_tif(rfn, ref.astype('float32'), g.ref_transform)
    return dict(src_fn=sfn, ref_fn=rfn, src=src, ref=ref.astype('float32'), smask=smask, x=x, ref_win=rw)
