"""End-to-end helpers for C02 / C03: the source 'as seen on the processing grid' and linear reference construction."""
import warnings

import numpy as np
import rasterio as rio

from harness import synth, impl_fuse as fz

warnings.filterwarnings('ignore')
NAN = float('nan')


def source_on_proc_grid(src_fn, ref_fn, downsampling='average'):
    """x = the source as the pipeline sees it on the reference grid: the NaN-padded (boundless) source window down-sampled with the very
    call RefSpaceModel.fit makes, over the whole processing window at once.  Returns (x (bands, H, W) on the reference window, window)."""
    from homonim.raster_pair import RasterPairReader
    from homonim.raster_array import RasterArray
    from homonim.enums import ProcCrs
    from rasterio.enums import Resampling
    with RasterPairReader(src_fn, ref_fn, proc_crs=ProcCrs.ref) as rd:
        rw, sw = rd._ref_win, rd._src_win
        xs = []
        for bi in rd.src_bands:
            src_ra = RasterArray.from_rio_dataset(rd._src_im, indexes=bi, window=sw)
            ref_ra = RasterArray.from_rio_dataset(rd._ref_im, indexes=rd.ref_bands[0], window=rw)
            x_ra = src_ra.reproject(**ref_ra.proj_profile, resampling=Resampling[downsampling])
            xs.append(np.array(x_ra.array))
        return np.stack(xs), rw


def r2_noise(src_fn, ref_fn, kernel_shape):
    """Per processing pixel (reference grid, whole window) and source band: the rounding-noise scale of the R2 band, which the code evaluates in
    float32 as 1 - RSS / TSS with TSS = N * sum(r^2) - sum(r)^2 from expanded kernel sums.  The subtraction cancels: its absolute error is
    ~ eps32 * N * sum(r^2), so R2 carries noise ~ eps32 * N * sum(r^2) / TSS (large when the window holds two or three nearly equal reference
    values).  Returned (with the reference window it covers): N * sum(r^2) / TSS in float64 over the jointly valid pixels of each kernel window (inf where TSS <= 0 or N < 2)."""
    from homonim.raster_pair import RasterPairReader
    from homonim.raster_array import RasterArray
    from homonim.enums import ProcCrs
    x, rw = source_on_proc_grid(src_fn, ref_fn)
    with RasterPairReader(src_fn, ref_fn, proc_crs=ProcCrs.ref) as rd:
        refs = [np.array(RasterArray.from_rio_dataset(rd._ref_im, indexes=bi, window=rw).array, dtype='float64') for bi in rd.ref_bands]
    kh, kw = kernel_shape
    out = []
    for b in range(x.shape[0]):
        r = refs[b]
        m = ~np.isnan(x[b]) & ~np.isnan(r)
        r = np.where(m, r, 0.0)

        def box(a):
            pad = np.pad(a, ((kh // 2, kh // 2), (kw // 2, kw // 2)))
            return sum(pad[i:i + a.shape[0], j:j + a.shape[1]] for i in range(kh) for j in range(kw))
        n, s1, s2 = box(m.astype('float64')), box(r), box(r * r)
        tss = n * s2 - s1 * s1
        with np.errstate(divide='ignore', invalid='ignore'):
            out.append(np.where((tss > 0) & (n >= 2), n * s2 / tss, np.inf))
    return np.stack(out), rw


def linear_pair(work, rng, g, nbands, coeffs, smask, tag='l'):
    """Source + reference with ref = a * x + b wherever x (source on the reference grid) is valid; arbitrary valid values elsewhere."""
    src = fz.texture(rng, g.src_shape, nbands, lo=20, hi=200)
    ref0 = fz.texture(rng, g.ref_shape, nbands, lo=30, hi=180)
    sfn, rfn = work / f'{tag}_src.tif', work / f'{tag}_ref.tif'
    synth.write_tif(sfn, src, g.src_transform, mask=smask)
    synth.write_tif(rfn, ref0, g.ref_transform)
    x, rw = source_on_proc_grid(sfn, rfn)
    ref = ref0.astype('float64').copy()
    r0, c0 = int(rw.row_off), int(rw.col_off)
    H, W = g.ref_shape
    for b in range(nbands):
        a, c = coeffs[b]
        for i in range(x.shape[1]):
            for j in range(x.shape[2]):
                rr, cc = r0 + i, c0 + j
                if 0 <= rr < H and 0 <= cc < W and not np.isnan(x[b, i, j]):
                    ref[b, rr, cc] = a * float(x[b, i, j]) + c
    synth.write_tif(rfn, ref.astype('float32'), g.ref_transform)
    return dict(src_fn=sfn, ref_fn=rfn, src=src, ref=ref.astype('float32'), smask=smask, x=x, ref_win=rw)


def blockwise_x_consistent(pair, max_block_mem, kernel_shape, rtol=1e-5):
    """Does every block see the same x as the whole-window x the reference was built from?  (It does not when block-origin float noise
    gives GDAL's average resampling a ~1e-10 pixel sliver at the footprint edge - known finding D10 - and then the premise
    'reference = a * x + b where x is the source as seen on the processing grid' does not hold for that run.)"""
    from homonim.raster_pair import RasterPairReader
    from homonim.enums import ProcCrs
    from homonim import utils
    from rasterio.enums import Resampling
    x, rw = pair['x'], pair['ref_win']
    with RasterPairReader(pair['src_fn'], pair['ref_fn'], proc_crs=ProcCrs.ref) as rd:
        for bp in rd.block_pairs(overlap=utils.overlap_for_kernel(tuple(kernel_shape)), max_block_mem=max_block_mem):
            src_ra, ref_ra = rd.read(bp)
            xb = np.array(src_ra.reproject(**ref_ra.proj_profile, resampling=Resampling.average).array)
            w = bp.ref_in_block
            bi = list(rd.src_bands).index(rd.src_bands[bp.band_i])
            r0, c0 = int(w.row_off - rw.row_off), int(w.col_off - rw.col_off)
            xw = x[bi, r0:r0 + int(w.height), c0:c0 + int(w.width)]
            if xw.shape != xb.shape or np.any(np.isnan(xw) != np.isnan(xb)):
                return False
            ok = ~np.isnan(xw)
            if np.any(np.abs(xw[ok] - xb[ok]) > rtol * (np.abs(xw[ok]) + 1)):
                return False
    return True


def block_x_validity_diffs(src_fn, ref_fn, max_block_mem, kernel_shape, overlap=None):
    """Reference-grid (row, col) positions - in the parameter image's frame - where some block's down-sampled source is valid and the
    whole-window down-sampled source is not, or vice versa (a sliver-overlap artefact of GDAL's average resampling: finding D10)."""
    from homonim.raster_pair import RasterPairReader
    from homonim.enums import ProcCrs
    from homonim import utils
    from rasterio.enums import Resampling
    x, rw = source_on_proc_grid(src_fn, ref_fn)
    out = set()
    with RasterPairReader(src_fn, ref_fn, proc_crs=ProcCrs.ref) as rd:
        for bp in rd.block_pairs(overlap=utils.overlap_for_kernel(tuple(kernel_shape)) if overlap is None else overlap, max_block_mem=max_block_mem):
            src_ra, ref_ra = rd.read(bp)
            xb = np.array(src_ra.reproject(**ref_ra.proj_profile, resampling=Resampling.average).array)
            w = bp.ref_in_block
            r0, c0 = int(w.row_off - rw.row_off), int(w.col_off - rw.col_off)
            xw = x[bp.band_i, r0:r0 + int(w.height), c0:c0 + int(w.width)]
            if xw.shape != xb.shape:
                continue
            for (r, c) in np.argwhere(np.isnan(xw) != np.isnan(xb)):
                out.add((int(w.row_off + r), int(w.col_off + c)))
    return sorted(out)


def band_footprints_case(work, rng, model='gain-offset', tag='bf', threads=1):
    """Two source bands with DIFFERENT footprints on the reference's own grid: band 1 holds no data in one half of the image (whole blocks of it are
    empty), band 2 is valid everywhere; reference band b = a_b * source band b + c_b wherever that band is valid.  Fused on the source grid in >= 8
    blocks, parameter image written.  Returns what the checks judge: the result, the source, the coefficients, the per-band validity."""
    H, W = rng.randint(48, 64), rng.randint(48, 64)
    off = (rng.randint(1, 3), rng.randint(1, 3))
    g = synth.Geom(1.0, 1, *rng.choice([(16.0, 48.0), (300000.0, 6200000.0)]), (H + off[0] + 2, W + off[1] + 2), off, (H, W))
    src = fz.texture(rng, (H, W), 2, lo=20, hi=200).astype('float32')
    valid = np.ones((2, H, W), bool)
    side = rng.choice(['west', 'east', 'north', 'south'])
    if side == 'west':
        valid[0, :, :W // 2] = False
    elif side == 'east':
        valid[0, :, W // 2:] = False
    elif side == 'north':
        valid[0, :H // 2] = False
    else:
        valid[0, H // 2:] = False
    coeffs = [(rng.choice([0.5, 1.5, 2.0]), rng.choice([-8.0, 4.0, 16.0])), (rng.choice([0.75, 1.25, 3.0]), rng.choice([-4.0, 8.0, 32.0]))]
    ref = fz.texture(rng, g.ref_shape, 2, lo=30, hi=180).astype('float32')
    for b, (a, c) in enumerate(coeffs):
        ref[b, off[0]:off[0] + H, off[1]:off[1] + W] = np.where(valid[b], np.float32(a) * src[b] + np.float32(c), ref[b, off[0]:off[0] + H, off[1]:off[1] + W])
    sfn, rfn = work / f'{tag}_src.tif', work / f'{tag}_ref.tif'
    synth.write_tif(sfn, np.where(valid, src, np.float32('nan')), g.src_transform)
    synth.write_tif(rfn, ref, g.ref_transform)
    mbm, nblk = fz.pick_block_mem(sfn, rfn, 'src', rng.choice([8, 16]), (3, 3))
    res = fz.fuse(sfn, rfn, work / f'{tag}_out.tif', model=model, kernel_shape=(3, 3), proc_crs='src', max_block_mem=mbm, threads=threads, force=True,
                  src_bands=[1, 2], ref_bands=[1, 2], model_config=dict(r2_inpaint_thresh=None), out_profile=dict(dtype='float32', nodata=float('nan')))
    desc = dict(geom=g.describe(), bands=2, band_1_has_no_data_in=side, model=model, kernel_shape=[3, 3], proc_crs='src', blocks=nblk, max_block_mem=mbm, threads=threads,
                coefficients=coeffs)
    return dict(res=res, src=src, valid=valid, coeffs=coeffs, desc=desc, nblk=nblk)


def island_case(work, rng, n_island, model='gain-blk-offset', tag='isl', threads=1):
    """A source whose valid data are a large body plus a tiny ISLAND of `n_island` (2 .. 9) pixels that sits alone in its block (and in the overlap
    the block reads): the reference, on the same grid, is exactly a * source + b and valid everywhere.  16 blocks on the source grid.  However few
    pixels a block holds, they are corrected like all others - with the block's own statistics, not with a fallback, and not dropped."""
    H, W = rng.randint(48, 60), rng.randint(48, 60)
    off = (rng.randint(1, 2), rng.randint(1, 2))
    g = synth.Geom(1.0, 1, *rng.choice([(16.0, 48.0), (300000.0, 6200000.0)]), (H + off[0] + 2, W + off[1] + 2), off, (H, W))
    src = fz.texture(rng, (H, W), 1, lo=20, hi=200).astype('float32')
    sm = np.zeros((H, W), bool)
    sm[:, :W // 2 - 2] = True
    # the island: n pixels of pairwise different values in a 3 x 3 patch near the lower right corner, more than 8 pixels from anything else valid
    r0, c0 = H - 8, W - 8
    cells = [(r0 + i, c0 + j) for i in range(3) for j in range(3)][:n_island]
    for k_, (r, c) in enumerate(cells):
        sm[r, c] = True
        src[0, r, c] = 40 + 13 * k_
    a, b = rng.choice([0.5, 1.5, 2.0]), rng.choice([-8.0, 16.0, 32.0])
    ref = fz.texture(rng, g.ref_shape, 1, lo=30, hi=180).astype('float32')
    ref[0, off[0]:off[0] + H, off[1]:off[1] + W] = np.float32(a) * src[0] + np.float32(b)
    sfn, rfn = work / f'{tag}_src.tif', work / f'{tag}_ref.tif'
    synth.write_tif(sfn, src, g.src_transform, mask=sm)
    synth.write_tif(rfn, ref, g.ref_transform)
    mbm, nblk = fz.pick_block_mem(sfn, rfn, 'src', 16, (3, 3))
    res = fz.fuse(sfn, rfn, work / f'{tag}_out.tif', model=model, kernel_shape=(3, 3), proc_crs='src', max_block_mem=mbm, threads=threads,
                  model_config=dict(r2_inpaint_thresh=None), out_profile=dict(dtype='float32', nodata=float('nan')))
    island = np.zeros((H, W), bool)
    for (r, c) in cells:
        island[r, c] = True
    desc = dict(geom=g.describe(), model=model, kernel_shape=[3, 3], proc_crs='src', blocks=nblk, max_block_mem=mbm, threads=threads, island_pixels=n_island,
                island_at=[int(r0), int(c0)], a=a, b=b)
    return dict(res=res, src=src, smask=sm, island=island, a=a, b=b, desc=desc, nblk=nblk)
