#!/venv/bin/python
"""C01 - sliding-kernel regression equals its definition at every pixel."""
import itertools
import sys
from pathlib import Path
sys.path.insert(0, str(Path(__file__).resolve().parents[1]))
from harness.core import Run  # noqa: E402
from harness import impl_kernel as ik  # noqa: E402
import numpy as np  # noqa: E402


def body(run):
    run.build(extra_targets=['theories/Corr/CheckC01.v'])
    rng = run.rng('kernel')
    cases, metas, dist = [], [], {}
    n = run.scale(280, 6000)
    todo = [ik.gen_case(rng, maxdim=run.scale(10, 24)) for _ in range(n)]
    # kernel windows with more than 255 (and, thorough, more than 65535 is out of reach) jointly valid pixels
    bigs = [((17, 17), (17, 18)), ((3, 91), (4, 95)), ((19, 15), (20, 17))] + ([((25, 11), (27, 13)), ((1, 301), (2, 305))] if run.thorough else [])
    for bi, (ks, shp) in enumerate(bigs):
        for model in (['gain-offset', 'gain'] if not run.thorough else ik.MODELS):
            if bi == 0 or model == 'gain-offset' or run.thorough:
                todo.append(ik.gen_big_kernel_case(rng, model, ks, shp))
    if run.thorough:   # exhaustive: every source mask of a 3 x 3 block x kernels {1,3}^2 x 3 models
        for bits in range(512):
            m = np.array([(bits >> k) & 1 for k in range(9)], bool).reshape(3, 3)
            for kh, kw in itertools.product([1, 3], [1, 3]):
                for model in ik.MODELS:
                    if model == 'gain-offset' and kh * kw < 2:
                        continue
                    src = np.where(m, np.arange(1, 10).reshape(3, 3) * 3 % 11 + 1, np.nan).astype('float32')
                    ref = (np.arange(9).reshape(3, 3) * 5 % 13 + 2).astype('float32')
                    todo.append(dict(model=model, kshape=(kh, kw), find_r2=True, thresh=None, src=src, ref=ref,
                                     mask_kind='exhaustive-3x3', style='fixed'))
    for k, c in enumerate(todo):
        # every third block stores the source's invalid pixels under a number instead of NaN (a number that is not one of its valid values)
        nd_ = [float('nan'), -9999.0, 0.0][k % 3]
        if not (nd_ != nd_) and bool(np.any(c['src'] == nd_)):
            nd_ = float('nan')
        c['src_nodata'] = nd_
        out = ik.run_fit(c['model'], c['kshape'], c['find_r2'], c['thresh'], c['src'], c['ref'], src_nodata=nd_)
        a, b = out['norm']
        key = (c['model'], c['mask_kind'], 'h!=w' if c['kshape'][0] != c['kshape'][1] else 'h=w')
        dist[str(key)] = dist.get(str(key), 0) + 1
        desc = dict(model=c['model'], kernel_shape=list(c['kshape']), find_r2=c['find_r2'], r2_inpaint_thresh=c['thresh'],
                    shape=list(c['src'].shape), mask=c['mask_kind'], data=c['style'],
                    src=np.where(np.isnan(c['src']), -9999, c['src']).astype(int).tolist(),
                    ref=np.where(np.isnan(c['ref']), -9999, c['ref']).astype(int).tolist())
        jv = int((~np.isnan(c['src']) & ~np.isnan(c['ref'])).sum())
        nontriv = jv >= 2 and (c['kshape'][0] != c['kshape'][1] or jv < c['src'].size) and c['style'] != 'const-src'
        run.count_case((c['model'], c['kshape'], c['thresh'], c['src'].tobytes(), c['ref'].tobytes()), nontriv,
                       desc if k < 3 else None)
        if c['model'] == 'gain-blk-offset' and not ik.norm_check(c['src'], c['ref'], out):
            run.add_violation('block normalisation is not (std ratio, 1st percentile offset) of the jointly valid pixels',
                              desc, observed=dict(norm=out['norm']), signature=dict(kind='block-norm'))
        if c['model'] == 'gain-blk-offset' and not (np.isfinite(a) and np.isfinite(b)):
            dist['gbo-degenerate-norm'] = dist.get('gbo-degenerate-norm', 0) + 1
            continue
        # independent oracle: the definition recomputed from explicit loops on the implementation's output
        v = ik.brute_check(c['model'], c['kshape'], c['thresh'], c['src'], c['ref'], out, exact_sums=c['style'] == 'high-level')
        if v is not None:
            run.add_violation(v['what'], desc, expected=v.get('expected'), observed=v,
                              signature=dict(kind='kernel-definition', model=c['model']))
        if c['mask_kind'] == 'big-kernel' and not run.thorough and not (c['kshape'] == (17, 17) and c['model'] == 'gain-offset'):
            continue      # big windows are expensive inside Coq: one per quick run, the rest go to the explicit-loop oracle only
        cases.append(ik.encode(c['model'], c['kshape'], c['thresh'], c['src'], c['ref'], out))
        metas.append(desc)
    # one evaluation per case gives both answers; shards are formed by estimated cost (pixels x kernel area; ~2000 units per second)
    def cost(c):
        return c[8] * c[9] * c[1] * c[2] * (1.5 if c[4] else 1.0)
    failing, nt = run.corr('fit', 'Corr.CheckC01', cases, shard=60, both='check_nt', cost=cost, budget=150000.0)
    for k in failing[:5]:
        run.add_break('correspondence-break', 'KernelModel.fit differs from Kernel.Fit.fit_px beyond the derived float32 bound', metas[k])
    run.cov['rule'] = ('seeded block pairs (1..12 px quick / 1..24 thorough) with integer data scaled so float32 box sums are exact, '
                       'kernels from {1,3,5,7,9}^2 with h != w in 65 %, 8 mask families on source and reference, 3 models x find_r2 x '
                       'in-paint thresholds {None,0,.25,.6,1}; non-trivial = >= 2 jointly valid pixels, non-constant source, and '
                       '(h != w or some invalid pixel); distinct = distinct (model, kernel, threshold, data)')
    run.extra['input_distribution'] = dict(by_model_mask_kernel=dist, model_cases=len(cases), model_nontrivial=nt)
    run.trusted += ['OpenCV boxFilter/sqrBoxFilter, NumPy std/percentile and rasterio fillnodata are modelled / observed, not verified',
                    'float32 rounding is bounded by Corr.CheckC01 tolerances derived from the exact model values, not proved']


if __name__ == '__main__':
    Run('C01').guard(body)
