#!/bin/sh
# usage: seedtest.sh <ID> <seed dir with patch.diff demo.py>   - validate a seeded change independently, then run the check on it
ID=$1; SD=$2; WT=/tmp/val_$ID_$$
LOG=$SD/validation.log
: > $LOG
git -C /repo worktree add -q --detach $WT HEAD || exit 2
cd $WT; export PYTHONPATH=$WT
echo "== demo on pristine" >> $LOG
/venv/bin/python $SD/demo.py >> $LOG 2>&1; echo "pristine_rc=$?" >> $LOG
git apply $SD/patch.diff >> $LOG 2>&1 || { echo "PATCH DOES NOT APPLY" >> $LOG; }
echo "== demo with change" >> $LOG
/venv/bin/python $SD/demo.py >> $LOG 2>&1; echo "patched_rc=$?" >> $LOG
echo "== test suite with change" >> $LOG
/venv/bin/python -m pytest -q -p no:cacheprovider --junitxml=$SD/junit.xml > $SD/pytest.log 2>&1
/venv/bin/python - $SD/junit.xml >> $LOG <<'PY'
import json, sys, xml.etree.ElementTree as ET
base = json.load(open('/root/.vp/BASELINE.json'))
passed = set()
for tc in ET.parse(sys.argv[1]).getroot().iter('testcase'):
    if not any(c.tag in ('failure', 'error', 'skipped') for c in tc):
        passed.add(f"{tc.get('classname')}::{tc.get('name')}")
missing = [t for t in base['stable_pass'] if t not in passed]
print(f"suite: passed={len(passed)} baseline={len(base['stable_pass'])} missing={len(missing)}", missing[:5])
PY
cd /tmp
git -C /repo worktree remove --force $WT
grep -E "pristine_rc|patched_rc|suite:|PATCH DOES" $LOG
