#!/venv/bin/python
"""C11 - comparison statistics equal their definitions, whatever the blocking."""
import math
import sys
from pathlib import Path
sys.path.insert(0, str(Path(__file__).resolve().parents[1]))
from harness.core import Run  # noqa: E402
from harness import synth, impl_stats as st, impl_fuse as fz  # noqa: E402
import numpy as np  # noqa: E402


def same_stats(a, b, rtol):
    for k in a:
        for f in ('r2', 'rmse', 'rrmse'):
            x, y = float(a[k][f]), float(b[k][f])
            if math.isnan(x) and math.isnan(y):
                continue
            if not abs(x - y) <= rtol * (1 + abs(y)):
                return f'{k}.{f}: {x} vs {y}'
        if a[k]['n'] != b[k]['n']:
            return f'{k}.n: {a[k]["n"]} vs {b[k]["n"]}'
    return None


def body(run):
    run.build(extra_targets=['theories/Corr/CheckC11.v'])
    rng = run.rng('compare')
    cases, metas, dist = [], [], {}
    for k in range(run.scale(60, 1200)):
        family = rng.choice(['same', 'same', 'avg2', 'avg4'])
        nb = rng.choice([1, 1, 2, 3])
        pair = st.make_compare_pair(run.work, rng, family, nbands=nb, signed=[None, None, 'neg', None, 'mixed', None][k % 6])
        sb = rb = None
        if nb >= 2 and rng.random() < 0.5:
            sb = rng.sample(range(1, nb + 1), rng.randint(1, nb))
            rb = rng.sample(range(1, nb + 1), len(sb))
        ph, pw = pair['pm'].shape
        target = rng.choice([1, 2, 4, 9, 20])
        mbm = 1e6 if target == 1 else pair['geom'].ref_shape[0] * pair['geom'].ref_shape[1] * 4 / 2 ** 20 / target / (pair['ratio'] ** 2)
        threads = rng.choice([1, 2, 4])
        try:
            res = st.compare_case(pair, mbm, threads, sb, rb)
        except Exception as ex:
            if type(ex).__name__ == 'BlockSizeError':
                res = st.compare_case(pair, 1e6, threads, sb, rb)
                mbm = 1e6
            else:
                raise
        desc = dict(family=family, values=[None, None, 'neg', None, 'mixed', None][k % 6] or 'positive', geom=pair['geom'].describe(), src_encoding=pair['src_encoding'], ref_encoding=pair['ref_encoding'], bands=nb, src_bands=sb, ref_bands=rb, max_block_mem=mbm, threads=threads,
                    blocks=res['nblocks'], stats={k2: {f: float(v) for f, v in d.items()} for k2, d in res['stats'].items()})
        key = f'{family}/bands={nb}/blocks={"1" if res["nblocks"] == 1 else ">1"}'
        dist[key] = dist.get(key, 0) + 1
        nvalid = sum(len(b) for b in res['per_band'][0])
        run.count_case((k,), nvalid >= 4 and (not pair['pm'].all() or not pair['rmask'].all() or res['nblocks'] > 1), desc if len(run.cov['samples']) < 3 else None)
        v = st.compare_oracle(res)
        if v:
            run.add_violation('comparison statistic differs from its definition: ' + v, desc, signature=dict(kind='compare-def', what=v.split(':')[1].split('=')[0].strip()))
        cases.append(st.encode_compare(res))
        metas.append(desc)
        # block / thread invariance on the same pair
        res1 = st.compare_case(pair, 1e6, 1, sb, rb)
        d = same_stats(res['stats'], res1['stats'], 1e-9)
        if d:
            run.add_violation('comparison statistics depend on block size / thread count: ' + d, desc, signature=dict(kind='compare-blocks', forced_fine_grid=False))
    # ---- bands with different footprints, many blocks: the statistics of EACH band are over the pixels valid in that band (a block that holds no
    #      data in one band may hold data in the next)
    from homonim import RasterCompare
    for k in range(run.scale(3, 12)):
        H, W = rng.randint(40, 56), rng.randint(40, 56)
        off = (rng.randint(0, 2), rng.randint(0, 2))
        g = synth.Geom(1.0, 1, 16.0, 48.0, (H + off[0] + 1, W + off[1] + 1), off, (H, W))
        src = np.array([[[rng.randint(1, 60) for _ in range(W)] for _ in range(H)] for _ in range(2)], dtype='float32')
        ref = np.array([[[rng.randint(1, 60) for _ in range(g.ref_shape[1])] for _ in range(g.ref_shape[0])] for _ in range(2)], dtype='float32')
        valid = np.ones((2, H, W), bool)
        side = ['west', 'north', 'east', 'south'][k % 4]
        if side == 'west':
            valid[0, :, :W // 2] = False
        elif side == 'east':
            valid[0, :, W // 2:] = False
        elif side == 'north':
            valid[0, :H // 2] = False
        else:
            valid[0, H // 2:] = False
        sfn, rfn = run.work / 'bf_src.tif', run.work / 'bf_ref.tif'
        synth.write_tif(sfn, np.where(valid, src, np.float32('nan')), g.src_transform)
        synth.write_tif(rfn, ref, g.ref_transform)
        mbm = H * W * 4 / 2 ** 20 / rng.choice([8, 16, 32])
        threads = [1, 2][k % 2]
        desc = dict(geom=g.describe(), bands=2, band_1_has_no_data_in=side, max_block_mem=mbm, threads=threads)
        try:
            with RasterCompare(sfn, rfn, src_bands=[1, 2], ref_bands=[1, 2], force=True) as rc:
                stats = rc.process(threads=threads, max_block_mem=mbm)
        except Exception as ex:
            if type(ex).__name__ == 'BlockSizeError':
                continue
            raise
        run.count_case(('bf', k), True, desc if k < 1 else None)
        rows = [v for kk, v in stats.items() if kk != 'Mean']
        for b in range(2):
            x = src[b][valid[b]].astype('float64')
            y = ref[b, off[0]:off[0] + H, off[1]:off[1] + W][valid[b]].astype('float64')
            exp_n, exp_rmse = len(x), float(np.sqrt(np.mean((y - x) ** 2)))
            got = rows[b] if b < len(rows) else {}
            if int(got.get('n', -1)) != exp_n or abs(float(got.get('rmse', float('nan'))) - exp_rmse) > 1e-5 * (1 + exp_rmse):
                run.add_violation(f'comparison statistic differs from its definition: band {b + 1}: N = {got.get("n")} RMSE = {got.get("rmse")}, definition N = {exp_n} RMSE = {exp_rmse}',
                                  desc, signature=dict(kind='compare-def', what='N'))
                break
    # ---- a source whose edge pokes a hair past a reference grid line: the reference pixels it touches take part (N counts every reference pixel
    #      the source overlaps at all; both images valid everywhere), for every block size
    import math as _m
    for k in range(run.scale(4, 16)):
        ratio = [2, 4][k % 2]
        hair = [5e-4, 2e-4, 9e-4][k % 3]
        n0, n1 = rng.randint(1, 3), rng.randint(1, 3)
        sh_ = (rng.randint(5, 10) * ratio, rng.randint(5, 10) * ratio)
        off_ = (n0 - hair, n1 - hair) if (k // 2) % 2 == 0 else (n0 + hair, n1 + hair)
        g = synth.Geom([1.0, 0.5][k % 2], ratio, 16.0, 48.0, (n0 + sh_[0] // ratio + 3, n1 + sh_[1] // ratio + 3), off_, sh_)
        src = np.array([[[rng.randint(1, 60) for _ in range(sh_[1])] for _ in range(sh_[0])]], dtype='float32')
        ref = np.array([[[rng.randint(1, 60) for _ in range(g.ref_shape[1])] for _ in range(g.ref_shape[0])]], dtype='float32')
        sfn, rfn = run.work / 'hl_src.tif', run.work / 'hl_ref.tif'
        synth.write_tif(sfn, src, g.src_transform)
        synth.write_tif(rfn, ref, g.ref_transform)
        exp_n = (_m.ceil(off_[0] + sh_[0] / ratio) - _m.floor(off_[0])) * (_m.ceil(off_[1] + sh_[1] / ratio) - _m.floor(off_[1]))
        for mbm in (1e6, sh_[0] * sh_[1] * 4 / 2 ** 20 / 8):
            desc = dict(geom=g.describe(), hairline_offset=hair, max_block_mem=mbm)
            try:
                with RasterCompare(sfn, rfn) as rc:
                    stats = rc.process(threads=1, max_block_mem=mbm)
            except Exception as ex:
                if type(ex).__name__ == 'BlockSizeError':
                    continue
                raise
            run.count_case(('hl', k, mbm), True, desc if k < 1 else None)
            got_n = int([v for kk, v in stats.items() if kk != 'Mean'][0]['n'])
            if got_n != exp_n:
                run.add_violation(f'comparison statistic differs from its definition: N = {got_n}, but the source overlaps {exp_n} reference pixels (all valid)', desc,
                                  signature=dict(kind='compare-def', what='N'))
                break
    failing, nt = run.corr('compare', 'Corr.CheckC11', cases, shard=80)
    for k in failing[:5]:
        run.add_break('correspondence-break', 'RasterCompare.process differs from Stats.Compare on the jointly valid pixels', metas[k])
    # the statistics are those of the image pair, "for every image pair" - also when the object was used before: a call that failed half way
    # (a read error on some block), then the same call again on the same object; and two complete calls in a row
    import random as _random
    from harness import impl_conc as ic
    for k in range(run.scale(3, 12)):
        pair = st.make_compare_pair(run.work, rng, ['same', 'avg2'][k % 2], nbands=rng.choice([1, 2]))
        nb = pair['src'].shape[0]
        sel = list(range(1, nb + 1))
        mbm, nblk = fz.pick_block_mem(pair['src_fn'], pair['ref_fn'], 'auto', 6, (1, 1))
        fresh = st.compare_case(pair, mbm, 1, sel, sel)['stats']
        from homonim import RasterCompare
        with RasterCompare(pair['src_fn'], pair['ref_fn'], src_bands=sel, ref_bands=sel, force=True) as rc:
            twice = [rc.process(threads=2, max_block_mem=mbm), rc.process(threads=2, max_block_mem=mbm)][1]
        r = ic.run_compare(pair['src_fn'], pair['ref_fn'], rng=_random.Random(k), threads=2, fault=dict(role=['src', 'ref'][k % 2], op='*', k=max(1, nblk // 2)),
                           max_block_mem=mbm, timeout=60, reuse=True) if nb == 1 else None
        run.count_case(('reuse', k), True, None)
        desc = dict(geom=pair['geom'].describe(), bands=nb, max_block_mem=mbm, blocks=nblk)
        d = same_stats(twice, fresh, 1e-9)
        if d:
            run.add_violation('comparison statistics depend on an earlier call on the same object: ' + d, desc, signature=dict(kind='compare-history', after='complete call'))
        if r is not None and r['rec'].fault_fired and r['reuse'] == 'ok':
            d = same_stats(r['reuse_stats'], fresh, 1e-9)
            if d:
                run.add_violation('comparison statistics depend on an earlier call on the same object: ' + d, dict(desc, failed_call_first=True),
                                  signature=dict(kind='compare-history', after='failed call'))
    # general geometries: block invariance on the recommended (auto) grid; the forced finer grid is known finding D8
    for k in range(run.scale(8, 100)):
        g = synth.random_geom(rng, max_src=36)
        pair = fz.make_pair(run.work, g, rng, smask=fz.src_mask(rng, g.src_shape, rng.choice(['none', 'holes', 'border'])), tag='g')
        forced = k % 4 == 3 and g.ratio > 1
        proc = 'src' if forced else 'auto'
        try:
            one = fz.compare(pair['src_fn'], pair['ref_fn'], proc_crs=proc, threads=1, max_block_mem=1e6)
            mbm, nblk = fz.pick_block_mem(pair['src_fn'], pair['ref_fn'], proc, 8, (1, 1))
            many = fz.compare(pair['src_fn'], pair['ref_fn'], proc_crs=proc, threads=2, max_block_mem=mbm)
        except Exception as ex:
            dist['general-skipped:' + type(ex).__name__] = dist.get('general-skipped:' + type(ex).__name__, 0) + 1
            continue
        key = f'general/{"forced-fine-grid" if forced else "auto"}'
        dist[key] = dist.get(key, 0) + 1
        run.count_case(('g', k), nblk > 1, None)
        d = same_stats(many['stats'], one['stats'], 1e-4)     # float32 block sums of non-integer data: accumulation precision
        if d:
            # the GDAL sliver of finding D10 also reaches compare: does some block see a processing pixel valid that the whole-window
            # down-sampling sees invalid (or vice versa)?  (reference grid, zero overlap = what compare uses)
            cause = 'other'
            if not forced and one['proc_crs'] == 'ref':
                try:
                    from harness import impl_e2e as e2e
                    sl = e2e.block_x_validity_diffs(pair['src_fn'], pair['ref_fn'], mbm, (1, 1), overlap=(0, 0))
                    if sl and one['stats']['Mean']['n'] != many['stats']['Mean']['n']:
                        cause = 'validity-sliver'
                except Exception:
                    cause = 'other'
            run.add_violation('comparison statistics depend on block size: ' + d,
                              dict(geom=g.describe(), proc_crs=proc, max_block_mem=mbm, blocks=nblk, one=one['stats'], many=many['stats']),
                              signature=dict(kind='compare-blocks', forced_fine_grid=bool(forced), cause=cause,
                                             n_differs=any(one['stats'][b_]['n'] != many['stats'][b_]['n'] for b_ in one['stats'])))
    # ---- N is "exactly ... independent of block size" on EVERY grid, also the forced finer one with blocks of a few pixels (thinner than the
    #      padding by which the source window is aligned to the reference grid): r2 / RMSE there are known finding D8, N is not
    for k in range(run.scale(3, 12)):
        ratio = rng.choice([3, 4])
        sh = (rng.randint(20, 30), rng.randint(20, 30))
        off = (rng.randint(1, 3) + rng.choice([1, 2]) / ratio, rng.randint(1, 3) + rng.choice([1, 2]) / ratio)
        g = synth.Geom(rng.choice([1.5, 3.0]), ratio, 16.0, 48.0, (int(off[0] + sh[0] / ratio) + 4, int(off[1] + sh[1] / ratio) + 4), off, sh)
        pair = fz.make_pair(run.work, g, rng, smask=fz.src_mask(rng, sh, rng.choice(['none', 'holes'])), tag='t')
        try:
            one = fz.compare(pair['src_fn'], pair['ref_fn'], proc_crs='src', threads=1, max_block_mem=1e6)
            mbm, nblk = fz.pick_block_mem(pair['src_fn'], pair['ref_fn'], 'src', sh[0] * sh[1] // 5, (1, 1))
            many = fz.compare(pair['src_fn'], pair['ref_fn'], proc_crs='src', threads=rng.choice([1, 2]), max_block_mem=mbm)
        except Exception as ex:
            dist['tiny-skipped:' + type(ex).__name__] = dist.get('tiny-skipped:' + type(ex).__name__, 0) + 1
            continue
        dist['forced-fine-grid/tiny-blocks'] = dist.get('forced-fine-grid/tiny-blocks', 0) + 1
        run.count_case(('tiny', k), True, None)
        dn = {b_: (one['stats'][b_]['n'], many['stats'][b_]['n']) for b_ in one['stats'] if one['stats'][b_]['n'] != many['stats'][b_]['n']}
        if dn:
            run.add_violation('comparison statistics depend on block size: N differs: ' + repr(dn), dict(geom=g.describe(), proc_crs='src', max_block_mem=mbm, blocks=nblk),
                              signature=dict(kind='compare-blocks', forced_fine_grid=True, cause='other', n_differs=True))
    run.cov['rule'] = ('real comparisons of file pairs whose processing-grid pixel pairs are known exactly (same grid; source 2x / 4x finer, aligned, '
                       'integer data so that float32 sums are exact), 1..3 bands with band selections, 1..20 blocks, 1..4 threads: N exact, r2 / RMSE^2 / '
                       'rRMSE^2 to 1e-8 against the Gallina model and against an exact-fraction oracle, and against the single-block run; plus '
                       'general geometries for block invariance; non-trivial = some invalid pixel or several blocks')
    run.extra['input_distribution'] = dict(runs=dist, model_nontrivial=nt)
    run.assumptions += ['H_down_local / GDAL average on aligned grids = mean of the valid covered pixels (exercised exactly)']
    run.trusted += ['GDAL resampling (oracle); sqrt of the implementation is undone by squaring the reported doubles exactly inside Coq']
    run.finish()


if __name__ == '__main__':
    Run('C11').guard(body)
