"""Several source files in ONE `homonim fuse` invocation (the command loops over its source files and re-uses its option values for each): every
file must be treated as if it were the only one.  Shared by C15 (the reader built for each file has the bands a reader built for that file alone
has), C18 (each file's outputs sit on the grid `auto` resolves to for THAT file) and C19 (each file's outputs equal the API call for that file)."""
from pathlib import Path

import numpy as np
import rasterio as rio
from rasterio.transform import Affine

from harness import synth

WLS = [0.49, 0.56, 0.655, 0.705, 0.842]


def make_files(work, rng, tag='mf'):
    """A 10 m reference with 5 bands (centre wavelengths tagged), a finer 3-band source, a coarser 4-band source and a finer 4-band source, all
    inside the reference, with centre wavelengths; returns dict(ref, fine3, coarse4, fine4)."""
    work = Path(work)
    x0, y0 = 300000.0, 6200000.0
    ref_shape = (40, 44)

    def tex(shape, nb, lo, hi, seed):
        r = np.random.RandomState(seed)
        yy, xx = np.mgrid[0:shape[0], 0:shape[1]]
        return np.stack([(lo + (hi - lo) * (0.3 + 0.2 * np.sin(yy / 3.0 + b) + 0.2 * np.cos(xx / 4.0 - b)) + r.randint(0, 10, shape)).astype('float32') for b in range(nb)])
    files = {}
    files['ref'] = synth.write_tif(work / f'{tag}_ref.tif', tex(ref_shape, 5, 60, 160, 1), Affine(10.0, 0, x0, 0, -10.0, y0),
                                   band_tags={i + 1: dict(center_wavelength=str(WLS[i])) for i in range(5)})
    files['fine3'] = synth.write_tif(work / f'{tag}_fine3.tif', tex((60, 64), 3, 40, 200, 2), Affine(5.0, 0, x0 + 30.0, 0, -5.0, y0 - 20.0),
                                     band_tags={1: dict(center_wavelength='0.48'), 2: dict(center_wavelength='0.56'), 3: dict(center_wavelength='0.66')})
    files['coarse4'] = synth.write_tif(work / f'{tag}_coarse4.tif', tex((12, 13), 4, 40, 200, 3), Affine(20.0, 0, x0 + 40.0, 0, -20.0, y0 - 40.0),
                                       band_tags={1: dict(center_wavelength='0.48'), 2: dict(center_wavelength='0.56'), 3: dict(center_wavelength='0.66'),
                                                  4: dict(center_wavelength='0.71')})
    files['fine4'] = synth.write_tif(work / f'{tag}_fine4.tif', tex((50, 52), 4, 40, 200, 4), Affine(5.0, 0, x0 + 50.0, 0, -5.0, y0 - 60.0),
                                     band_tags={1: dict(center_wavelength='0.48'), 2: dict(center_wavelength='0.56'), 3: dict(center_wavelength='0.66'),
                                                4: dict(center_wavelength='0.71')})
    return files


def cli_fuse(srcs, ref, out_dir, extra=()):
    """Run the fuse command on several sources; returns (exit code, output text, [per reader construction: dict(src, src_bands, ref_bands, proc_crs)])."""
    from click.testing import CliRunner
    from homonim import cli as hcli
    seen = []
    orig = hcli.RasterFuse

    class Recording(orig):
        def __init__(self, src_filename, ref_filename, *a, **kw):
            super().__init__(src_filename, ref_filename, *a, **kw)
            seen.append(dict(src=str(src_filename), src_bands=tuple(self.src_bands), ref_bands=tuple(self.ref_bands), proc_crs=self.proc_crs.name))
    hcli.RasterFuse = Recording
    try:
        r = CliRunner().invoke(hcli.cli, ['fuse', '-k', '3', '3', '-od', str(out_dir), '-nbo', *extra, *[str(s) for s in srcs], str(ref)])
    finally:
        hcli.RasterFuse = orig
    return r.exit_code, r.output, seen


def alone(src, ref):
    """what a reader built for this file alone has"""
    from homonim import RasterFuse
    with RasterFuse(src, ref) as rf:
        return dict(src=str(src), src_bands=tuple(rf.src_bands), ref_bands=tuple(rf.ref_bands), proc_crs=rf.proc_crs.name)
