"""Drivers for RasterCompare.process and ParamStats.stats on tiny real files, with the pixel lists the definitions range over."""
import math
import warnings
from fractions import Fraction as F

import numpy as np
import rasterio as rio
from rasterio.transform import Affine

from harness import synth

warnings.filterwarnings('ignore')
NAN = float('nan')


# ------------------------------------------------------------------------------------------------ compare
def make_compare_pair(work, rng, family, nbands=1, signed=None):
    """Source / reference with exactly known processing-grid pixel pairs.
    family 'same': same grid (integer offset);  'avg2' / 'avg4': source 2x / 4x finer, aligned, masks on whole reference pixels."""
    ratio = dict(same=1, avg2=2, avg4=4)[family]
    res = rng.choice([1.0, 0.5, 2.0])
    x0, y0 = rng.choice([(16.0, 48.0), (4.0, 100.0), (-64.0, 32.0)])
    ph, pw = (rng.randint(6, 24), rng.randint(6, 24)) if ratio == 1 else (rng.randint(4, 12), rng.randint(4, 12))
    off = (rng.randint(0, 4), rng.randint(0, 4))
    rshape = (ph + off[0] + rng.randint(0, 3), pw + off[1] + rng.randint(0, 3))
    g = synth.Geom(res, ratio, x0, y0, rshape, off, (ph * ratio, pw * ratio))
    vmax = 60 if ratio == 1 else 7
    src = np.array([[[rng.randint(1, vmax) for _ in range(pw * ratio)] for _ in range(ph * ratio)] for _ in range(nbands)], dtype='float32')
    ref = np.array([[[rng.randint(1, vmax) for _ in range(rshape[1])] for _ in range(rshape[0])] for _ in range(nbands)], dtype='float32')
    if rng.random() < 0.5:   # correlate so that r2 is not always ~0
        for b in range(nbands):
            sub = src[b].reshape(ph, ratio, pw, ratio).mean(axis=(1, 3))
            ref[b, off[0]:off[0] + ph, off[1]:off[1] + pw] = np.clip(np.round(sub * rng.choice([1, 2]) + rng.randint(0, 3)
                                                                      + np.array([[rng.randint(-2, 2) for _ in range(pw)] for _ in range(ph)])), 1, 2 * vmax)
    pm = np.ones((ph, pw), bool)          # source validity per processing pixel
    for _ in range(rng.randint(0, 3)):
        r, c = rng.randrange(ph), rng.randrange(pw)
        pm[r:r + rng.randint(1, 3), c:c + rng.randint(1, 3)] = False
    smask = np.kron(pm, np.ones((ratio, ratio), bool)).astype(bool)
    rmask = np.ones(rshape, bool)
    for _ in range(rng.randint(0, 3)):
        rmask[rng.randrange(rshape[0]), rng.randrange(rshape[1])] = False
    sfn, rfn = work / 'cmp_src.tif', work / 'cmp_ref.tif'
    # how each image stores invalidity (values are integers 1..120, so the integer encodings are lossless; no value equals a nodata value)
    encs = [dict(encoding='nan'), dict(encoding='nodata', nodata=-9999.0), dict(encoding='nodata', nodata=0.0), dict(encoding='mask', hidden=50.0),
            dict(encoding='nodata', nodata=-9999, dtype='int16'), dict(encoding='nodata', nodata=0, dtype='uint8'), dict(encoding='nan')]
    senc, renc = rng.choice(encs), rng.choice(encs)
    if signed:
        # data that are not reflectances (temperatures, dB, differences): every value negative ('neg'), or values of both signs ('mixed');
        # integers still, so every encoding that can hold them stays lossless; no band sums to exactly 0 over the jointly valid pixels
        # (a relative error is not defined against a zero mean)
        shift = (2 * vmax + 3) if signed == 'neg' else (vmax // 2 if ratio == 1 else 4)
        src, ref = src - np.float32(shift), ref - np.float32(shift)
        jm = pm & rmask[off[0]:off[0] + ph, off[1]:off[1] + pw]
        for b in range(nbands):
            sub = src[b].reshape(ph, ratio, pw, ratio).mean(axis=(1, 3))
            if jm.any() and float(sub[jm].sum()) == 0.0:
                r, c = (int(v) for v in np.argwhere(jm)[0])
                src[b, r * ratio:(r + 1) * ratio, c * ratio:(c + 1) * ratio] += 1
            rw = ref[b, off[0]:off[0] + ph, off[1]:off[1] + pw]
            if jm.any() and float(rw[jm].sum()) == 0.0:
                r, c = (int(v) for v in np.argwhere(jm)[0])
                rw[r, c] += 1
        signed_encs = [dict(encoding='nan'), dict(encoding='nodata', nodata=-9999.0), dict(encoding='mask', hidden=50.0), dict(encoding='nodata', nodata=-9999, dtype='int16')]
        senc, renc = signed_encs[encs.index(senc) % 4], signed_encs[encs.index(renc) % 4]
    synth.write_tif(sfn, src, g.src_transform, mask=smask, **senc)
    synth.write_tif(rfn, ref, g.ref_transform, mask=rmask, **renc)
    return dict(src_fn=sfn, ref_fn=rfn, geom=g, src=src, ref=ref, smask=smask, rmask=rmask, pm=pm, ratio=ratio, off=off, family=family,
                src_encoding=senc, ref_encoding=renc)


def compare_case(pair, max_block_mem, threads, src_bands=None, ref_bands=None):
    """Run RasterCompare.process; return observed stats + the per-block pixel pairs (from the reader's own block windows)."""
    from homonim import RasterCompare
    ratio, off = pair['ratio'], pair['off']
    # a 3-band image without metadata is assumed RGB and matched on wavelength: an explicit selection is forced
    with RasterCompare(pair['src_fn'], pair['ref_fn'], src_bands=src_bands, ref_bands=ref_bands, force=src_bands is not None) as rc:
        sb, rb = tuple(rc.src_bands), tuple(rc.ref_bands)
        blocks = list(rc.block_pairs(max_block_mem=max_block_mem))
        stats = rc.process(threads=threads, max_block_mem=max_block_mem)
        proc = rc.proc_crs.name
    ph, pw = pair['pm'].shape
    per_band = []
    for bi in range(len(sb)):
        s = pair['src'][sb[bi] - 1].reshape(ph, ratio, pw, ratio).mean(axis=(1, 3))       # exact dyadic means
        r = pair['ref'][rb[bi] - 1]
        blist = []
        for bp in blocks:
            if bp.band_i != bi:
                continue
            w = bp.ref_out_block
            px = []
            for rr in range(w.row_off, w.row_off + w.height):
                for cc in range(w.col_off, w.col_off + w.width):
                    pr, pc = rr - off[0], cc - off[1]
                    if 0 <= pr < ph and 0 <= pc < pw and 0 <= rr < r.shape[0] and 0 <= cc < r.shape[1] and pair['pm'][pr, pc] and pair['rmask'][rr, cc]:
                        px.append((float(s[pr, pc]), float(r[rr, cc])))
            blist.append(px)
        per_band.append(blist)
    return dict(stats=stats, per_band=per_band, src_bands=sb, ref_bands=rb, proc_crs=proc, nblocks=len(blocks) // max(1, len(sb)))


def encode_compare(res):
    keys = [k for k in res['stats'] if k != 'Mean']
    out = [len(keys)]
    for k, blist in zip(keys, res['per_band']):
        out.append(len(blist))
        for px in blist:
            out.append(len(px))
            for (x, y) in px:
                out += [x, y]
        st = res['stats'][k]
        out += [st['r2'], st['rmse'], st['rrmse'], st['n']]
    m = res['stats']['Mean']
    out += [m['r2'], m['rmse'], m['rrmse'], m['n']]
    return [float(v) for v in out]


def compare_oracle(res, rtol=1e-8):
    """C11 from first principles (exact fractions); returns None or a description."""
    keys = [k for k in res['stats'] if k != 'Mean']
    for k, blist in zip(keys, res['per_band']):
        px = [p for b in blist for p in b]
        st = res['stats'][k]
        if st['n'] != len(px):
            return f'{k}: N = {st["n"]} but {len(px)} jointly valid pixels'
        if not px:
            continue
        n = len(px)
        xs, ys = [F(p[0]) for p in px], [F(p[1]) for p in px]
        mx, my = sum(xs) / n, sum(ys) / n
        cov = sum((x - mx) * (y - my) for x, y in zip(xs, ys))
        vx, vy = sum((x - mx) ** 2 for x in xs), sum((y - my) ** 2 for y in ys)
        mse = sum((y - x) ** 2 for x, y in zip(xs, ys)) / n

        def near(obs, exact):
            return abs(obs - float(exact)) <= rtol * (1 + abs(float(exact)))
        if vx > 0 and vy > 0 and not near(st['r2'], cov * cov / (vx * vy)):
            return f'{k}: r2 = {st["r2"]} but squared Pearson correlation = {float(cov * cov / (vx * vy))}'
        if not near(st['rmse'] ** 2, mse):
            return f'{k}: RMSE = {st["rmse"]} but root mean square difference = {math.sqrt(mse)}'
        if my != 0 and not near(st['rrmse'] ** 2, mse / (my * my)):
            return f'{k}: rRMSE = {st["rrmse"]} but RMSE / mean(ref) = {math.sqrt(mse) / float(my)}'
    return None


# ------------------------------------------------------------------------------------------------ parameter statistics
def make_param_image(work, rng, nb, model, thresh, layout, shape=None, same_names=False, footprint=None):
    """Synthetic parameter image (3 * nb bands, float32, NaN nodata) with the tags and descriptions stats() requires."""
    H, W = shape or (rng.randint(20, 48), rng.randint(20, 48))
    arr = np.zeros((3 * nb, H, W), 'float32')
    base = np.ones((H, W), bool)
    k = rng.randint(0, 4)
    if k:
        base[:k] = base[-k:] = False
        base[:, :k] = False
    if footprint == 'L':
        # an L-shaped footprint (a rotated / clipped scene): the upper-left quarter holds no data, so whole internal tiles INSIDE the data
        # window are empty - and the first tile of every band is one of them
        base[:H // 2, :W // 2] = False
    for b in range(3 * nb):
        kind = b // nb
        vals = np.array([[rng.uniform(0.2, 3.0) if kind == 0 else (rng.uniform(-30, 30) if kind == 1 else rng.uniform(-0.5, 1.0))
                          for _ in range(W)] for _ in range(H)], dtype='float32')
        if kind == 1 and rng.random() < 0.3:
            # a constant band (an offset band in-painted from a single kernel; the offsets of the gain model): variance exactly 0, which the
            # cumulative formula sum2 / n - (sum / n)^2 reaches only up to rounding
            vals = np.full((H, W), np.float32(rng.choice([-24.78628921508789, 0.1, 105.44558715820312, 1 / 3, 0.0])), 'float32')
        m = base.copy()
        if b > 0:   # extra invalid pixels per band, always inside band 1's valid region
            for _ in range(rng.randint(0, 4)):
                r, c = rng.randrange(H), rng.randrange(W)
                m[r:r + rng.randint(1, 4), c:c + rng.randint(1, 4)] = False
        arr[b] = np.where(m, vals, NAN)
    prof = {}
    if layout == 'tiled16':
        prof = dict(tiled=True, blockxsize=16, blockysize=16)
    elif layout == 'tiled32x16':
        prof = dict(tiled=True, blockxsize=32, blockysize=16)
    elif layout == 'strips':
        prof = dict(tiled=False, blockysize=rng.choice([1, 4, 7]))
    fn = work / 'param_synth.tif'
    names = ['GAIN'] * nb + ['OFFSET'] * nb + ['R2'] * nb
    tags = dict(FUSE_MODEL=model.replace('-', '_'), FUSE_KERNEL_SHAPE='(3, 3)', FUSE_PROC_CRS='ref', FUSE_REF_FILE='ref.tif',
                FUSE_R2_INPAINT_THRESH=repr(thresh))
    with rio.open(fn, 'w', driver='GTiff', width=W, height=H, count=3 * nb, dtype='float32', nodata=NAN, crs=synth.UTM,
                  transform=Affine(1, 0, 0, 0, -1, 0), **prof) as ds:
        ds.write(arr)
        ds.update_tags(**tags)
        for i, nm in enumerate(names):
            # (same_names: what fuse writes when the matched reference bands share a description, e.g. a panchromatic reference used for every band)
            ds.set_band_description(i + 1, f'PAN_{nm}' if same_names else f'B{i % nb + 1}_{nm}')
    return fn


def param_case(fn, threads):
    """Run ParamStats.stats; return observed list + per band the valid values per internal tile of the file."""
    from homonim import ParamStats
    with ParamStats(fn) as ps:
        obs = ps.stats(threads=threads)
        model, thresh = ps._model, ps._r2_inpaint_thresh
        # the statistics are those of the file: a second call on the same open object (another thread count) reports them again
        again = ps.stats(threads=1 if threads != 1 else 2)
    with rio.open(fn) as ds:
        tiles = []
        for b in range(ds.count):
            a = ds.read(b + 1, masked=True)
            bl = []
            for _, w in ds.block_windows(b + 1):
                sub = a[w.row_off:w.row_off + w.height, w.col_off:w.col_off + w.width]
                bl.append([float(v) for v in sub.compressed()])
            tiles.append(bl)
        count = ds.count
        # what the FILE says (not what the reader object remembers of it): the model and the in-paint threshold the statistics are defined with
        import yaml
        tags = ds.tags()
        if 'FUSE_MODEL' in tags and 'FUSE_R2_INPAINT_THRESH' in tags:
            model = str(tags['FUSE_MODEL']).replace('_', '-')
            thresh = yaml.safe_load(tags['FUSE_R2_INPAINT_THRESH'])
            thresh = None if thresh in (None, 'None') else float(thresh)        # (None is written to the tag as the text 'None')
    def close(a, b):
        import math
        try:
            a, b = float(a), float(b)
        except (TypeError, ValueError):
            return str(a) == str(b)
        return (math.isnan(a) and math.isnan(b)) or abs(a - b) <= 1e-7 * (1 + abs(b))
    repeat_ok = len(again) == len(obs) and all(set(x) == set(y) and all(close(x[k], y[k]) for k in x) for x, y in zip(obs, again))
    return dict(obs=obs, tiles=tiles, model=model, thresh=thresh, count=count, repeat_ok=bool(repeat_ok), again=again)


def encode_param(res):
    go = res['model'] == 'gain-offset'
    th = res['thresh']
    out = [int(go), int(th is not None), 0.0 if th is None else float(th), res['count']]
    for bl, st in zip(res['tiles'], res['obs']):
        out.append(len(bl))
        for t in bl:
            out.append(len(t))
            out += t
        out += [st['mean'], st['std'], st['min'], st['max'], st.get('inpaint_p', NAN)]
    return [float(v) for v in out]


def param_oracle(res, rtol=1e-9):
    go, th, count = res['model'] == 'gain-offset', res['thresh'], res['count']
    if len(res['obs']) != len(res['tiles']):
        return f'{len(res["obs"])} bands reported for a parameter image of {len(res["tiles"])} bands'
    for bi, (bl, st) in enumerate(zip(res['tiles'], res['obs'])):
        vals = [F(v) for t in bl for v in t]
        if not vals:
            continue
        n = len(vals)
        mean = sum(vals) / n
        var = sum((v - mean) ** 2 for v in vals) / n
        s2 = float(sum(v * v for v in vals) / n)
        if any(math.isnan(float(st[k2])) for k2 in ('mean', 'std', 'min', 'max')):
            return f'band {bi + 1}: NaN statistic although the band has {n} valid pixels: ' + ', '.join(f'{k2}={st[k2]}' for k2 in ('mean', 'std', 'min', 'max'))
        if abs(st['mean'] - float(mean)) > rtol * (1 + abs(float(mean))):
            return f'band {bi + 1}: mean {st["mean"]} != {float(mean)}'
        if abs(st['std'] ** 2 - float(var)) > rtol * (s2 + 1):
            return f'band {bi + 1}: std {st["std"]} != {math.sqrt(var)}'
        if st['min'] != float(min(vals)) or st['max'] != float(max(vals)):
            return f'band {bi + 1}: min/max {st["min"]}, {st["max"]} != {float(min(vals))}, {float(max(vals))}'
        is_r2 = bi >= count * 2 / 3
        if go and is_r2 and th is not None:
            exp = 100 * sum(1 for v in vals if v < F(th)) / n
            if 'inpaint_p' not in st or abs(st['inpaint_p'] - float(exp)) > 1e-9:
                return f'band {bi + 1}: in-paint % {st.get("inpaint_p")} != {float(exp)}'
        elif 'inpaint_p' in st:
            return f'band {bi + 1}: unexpected in-paint % on a band that is not an R2 band of a gain-offset image'
    return None
