#!/venv/bin/python
"""C10 - no clobbering, no touching inputs, no dependence on what was there before."""
import hashlib
import os
import re
import shutil
import sys
from pathlib import Path
sys.path.insert(0, str(Path(__file__).resolve().parents[1]))
from harness.core import Run  # noqa: E402
from harness import synth, impl_fuse as fz, impl_kernel as ik  # noqa: E402
import numpy as np  # noqa: E402

SIDECAR = re.compile(r'\.(aux\.xml|msk|ovr)$')


def snapshot(d):
    out = {}
    for p in sorted(Path(d).rglob('*')):
        if p.is_file():
            st = p.stat()
            out[str(p.relative_to(d))] = (hashlib.sha256(p.read_bytes()).hexdigest(), st.st_mtime_ns, st.st_size)
    return out


def pixels(fn):
    r = fz.read_all(fn)
    h = hashlib.sha256()
    h.update(np.ascontiguousarray(r['array']).tobytes())
    h.update(np.ascontiguousarray(r['mask']).tobytes())
    h.update(repr(sorted((k, v) for k, v in r['tags'].items())).encode())
    return h.hexdigest()


def call(rf, corr, param, ow, as_str, model, kshape, mbm, via_cli=None, mask_partial=False):
    """One process() call; returns 0 ok / 1 FileExistsError / 2 other."""
    from homonim import Model
    c = str(corr) if as_str else Path(corr)
    p = None if param is None else (str(param) if as_str else Path(param))
    try:
        rf.process(c, Model(model), kshape, param_filename=p, build_ovw=False, overwrite=ow, model_config=dict(mask_partial=mask_partial),
                   block_config=dict(threads=2, max_block_mem=mbm))
        return 0, ''
    except FileExistsError:
        return 1, 'FileExistsError'
    except Exception as ex:
        return 2, f'{type(ex).__name__}: {str(ex)[:100]}'


def body(run):
    run.regenerate()
    run.build(extra_targets=['theories/Corr/CheckC10.v'])
    rng = run.rng('hist')
    from homonim import RasterFuse
    cases, metas, dist = [], [], {}
    for hi in range(run.scale(24, 300)):
        d = run.work / f'h{hi}'
        (d / 'in').mkdir(parents=True)
        (d / 'out').mkdir()
        g, pair, mbm, _ = fz.workable_pair(d / 'in', rng, lambda r: synth.aligned_geom(r, 30), (9, 9), 4, tag='i')      # (room for the 5-row kernels' overlap + 1 with partial masking)
        if hi % 2 == 1:
            # a reference with invalid pixels INSIDE the source footprint (a masked cloud): whatever a run does to the blocks it read - zeroing
            # them under the mask, say - must not reach the next run on the same object
            rmask = np.ones(g.ref_shape, bool)
            cr, cc = int(g.off_rc[0] + g.src_shape[0] / g.ratio / 2), int(g.off_rc[1] + g.src_shape[1] / g.ratio / 2)
            rmask[max(0, cr - 2):cr + 2, max(0, cc - 2):cc + 2] = False
            synth.write_tif(pair['ref_fn'], pair['ref'], g.ref_transform, mask=rmask)
        corr, param = d / 'out' / 'corr.tif', d / 'out' / 'corr_PARAM.tif'
        # pre-seed: nothing / junk bytes / a valid older product of another model
        pre = rng.choice(['none', 'corr-junk', 'param-junk', 'both-junk', 'old-product', 'old-product', 'corr-empty', 'param-empty'])
        # every sixth history: ONLY the parameter file pre-exists and the first call asks for both outputs without overwrite - the refusal must
        # come before the other output is created
        only_param = hi % 6 == 2
        if only_param:
            pre = ['param-junk', 'param-empty'][(hi // 6) % 2]
        # ... and every sixth: an EMPTY corrected file (a placeholder made by `touch`) is there and the first call does not ask to overwrite
        only_empty_corr = hi % 6 == 4
        if only_empty_corr:
            pre = 'corr-empty'
        if pre in ('corr-junk', 'both-junk'):
            corr.write_bytes(b'OLD CORRECTED FILE')
        if pre in ('param-junk', 'both-junk'):
            param.write_bytes(b'OLD PARAMETER FILE')
        if pre == 'corr-empty':          # an existing file is an existing file, also when it is empty (e.g. a placeholder made by `touch`)
            corr.write_bytes(b'')
        if pre == 'param-empty':
            param.write_bytes(b'')
        if pre == 'old-product':
            fz.fuse(pair['src_fn'], pair['ref_fn'], corr, model='gain', kernel_shape=(1, 1), max_block_mem=1e6, param=True)
        bystander = d / 'out' / 'bystander.txt'
        bystander.write_text('do not touch')
        steps = []
        with RasterFuse(pair['src_fn'], pair['ref_fn']) as rf:
            ncalls = rng.randint(1, 4)
            last_ok = None
            # every fourth history re-uses ONE object with the same model / kernel / block size and flips a single setting between the calls
            # (anything the object remembers from an earlier call - block lists, models, profiles - must not leak into the next one)
            flip = hi % 4 == 1
            if flip:
                ncalls, f_model, f_kshape, f_mp = rng.randint(2, 3), rng.choice(ik.MODELS), rng.choice([(3, 3), (5, 3)]), rng.random() < 0.5
            for ci in range(ncalls):
                as_str = rng.random() < 0.5
                ow = rng.random() < 0.5 or flip
                wp = rng.random() < 0.6
                model = rng.choice(ik.MODELS) if not flip else f_model
                kshape = rng.choice([(3, 3), (1, 3), (5, 3)]) if not flip else f_kshape
                mp = (rng.random() < 0.3) if not flip else (f_mp if ci % 2 == 0 else not f_mp)
                if only_param and ci == 0:
                    ow, wp = False, True
                if only_empty_corr and ci == 0:
                    ow = False
                before = snapshot(d)
                ce, pe = corr.exists(), param.exists()
                obs, err = call(rf, corr, param if wp else None, ow, as_str, model, kshape, mbm, mask_partial=mp)
                after = snapshot(d)
                changed = {k for k in set(before) | set(after) if before.get(k) != after.get(k)}
                step = dict(call=ci, as_str=as_str, overwrite=ow, param_image=wp, model=model, kernel_shape=list(kshape), mask_partial=mp,
                            corr_existed=ce, param_existed=pe, outcome=['ok', 'FileExistsError', err][obs], changed=sorted(changed))
                steps.append(step)
                desc = dict(preseed=pre, history=list(steps))
                key = f'{"str" if as_str else "Path"}/ow={ow}/param={wp}/exists={int(ce)}{int(pe)}'
                dist[key] = dist.get(key, 0) + 1
                run.count_case((hi, ci), ce or pe, desc if len(run.cov['samples']) < 3 else None)
                cases.append([float(as_str), float(ow), float(wp), float(ce), float(pe), float(obs), float(bool(changed))])
                metas.append(desc)
                # direct statement of the property
                allowed = {'out/corr.tif'} | ({'out/corr_PARAM.tif'} if wp else set())
                problems = {}
                if not ow and (ce or (wp and pe)):
                    if obs != 1:
                        problems['expected FileExistsError'] = step['outcome']
                    if changed:
                        problems['files changed although overwrite was not requested'] = sorted(changed)
                touched_inputs = [k for k in changed if k.startswith('in/')]
                if touched_inputs:
                    problems['input files modified'] = touched_inputs
                stray = [k for k in changed if not k.startswith('in/') and k not in allowed and not SIDECAR.search(k)]
                if stray:
                    problems['files other than the requested outputs changed / appeared'] = stray
                if obs == 2:
                    problems['unexpected error'] = err
                if obs == 0:
                    # history independence: same pixels and tags as a fresh run of the same call in an empty directory
                    fresh = run.work / f'fresh{hi}'
                    shutil.rmtree(fresh, ignore_errors=True)
                    fresh.mkdir()
                    with RasterFuse(pair['src_fn'], pair['ref_fn']) as rf2:
                        o2, e2 = call(rf2, fresh / 'corr.tif', (fresh / 'corr_PARAM.tif') if wp else None, False, False, model, kshape, mbm, mask_partial=mp)
                    if o2 != 0:
                        problems['fresh run failed'] = e2
                    else:
                        if pixels(corr) != pixels(fresh / 'corr.tif'):
                            problems['corrected image depends on history'] = True
                        if wp and pixels(param) != pixels(fresh / 'corr_PARAM.tif'):
                            problems['parameter image depends on history'] = True
                if problems:
                    run.add_violation('clobbering / input modification / history dependence', desc, observed=problems,
                                      signature=dict(kind='fs', parts=sorted(problems), as_str=as_str))
    # CLI: default (no --overwrite) must refuse, leave everything untouched and exit non-zero
    from click.testing import CliRunner
    from homonim import cli as hcli
    for ci in range(run.scale(3, 20)):
        d = run.work / f'cli{ci}'
        (d / 'in').mkdir(parents=True)
        (d / 'out').mkdir()
        g, pair, _mbm, _n = fz.workable_pair(d / 'in', rng, lambda r: synth.aligned_geom(r, 20), (3, 3), 1, tag='i')
        args = ['fuse', '-m', 'gain', '-k', '3', '3', '-od', str(d / 'out'), '-nbo', '-pi', str(pair['src_fn']), str(pair['ref_fn'])]
        r1 = CliRunner().invoke(hcli.cli, args)
        before = snapshot(d)
        r2 = CliRunner().invoke(hcli.cli, args)
        after = snapshot(d)
        r3 = CliRunner().invoke(hcli.cli, args + ['-o'])
        run.count_case(('cli', ci), True, None)
        dist['cli'] = dist.get('cli', 0) + 1
        if r1.exit_code != 0 or r2.exit_code == 0 or before != after or r3.exit_code != 0:
            run.add_violation('CLI clobbered or failed to refuse an existing output', dict(args=args),
                              observed=dict(first=r1.exit_code, second=r2.exit_code, changed=before != after, third=r3.exit_code),
                              signature=dict(kind='fs-cli'))
    failing, nt = run.corr('entry', 'Corr.CheckC10', cases)
    for k in failing[:5]:
        run.add_break('correspondence-break', 'process() outcome differs from Conc.Coord.run_entry on the generated _out_files', metas[k])
    run.cov['rule'] = ('histories of 1..4 process() calls on one RasterFuse object over directories pre-seeded with nothing / junk files / empty files / an older '
                       'product, str and Path arguments, overwrite on/off, parameter image on/off, model and kernel changed between calls; every '
                       'file hashed (sha256, mtime, size) before and after each call, successful calls compared with a fresh run in an empty '
                       'directory; plus CLI runs; non-trivial = some requested output pre-exists; distinct = distinct (history, call index)')
    run.extra['input_distribution'] = dict(calls=dist, model_nontrivial=nt)
    run.trusted += ['translate/skeleton.py name map for _out_files; format side-cars (.aux.xml, .msk, .ovr) are allowed by the property']


if __name__ == '__main__':
    Run('C10').guard(body)
