#!/venv/bin/python
"""C09 - fail loud: a failed block is never swallowed, and never hangs or leaks."""
import sys
from pathlib import Path
sys.path.insert(0, str(Path(__file__).resolve().parents[1]))
from harness.core import Run  # noqa: E402
from harness import synth, impl_fuse as fz, impl_conc as ic, interpose as ip  # noqa: E402
import random  # noqa: E402


def cli_fault(run, pair, fault, threads, mbm):
    """homonim fuse through click's CliRunner with a fault injected: returns the exit code."""
    from click.testing import CliRunner
    from homonim import cli as hcli, utils
    from homonim.enums import ProcCrs, Model
    out_dir = run.work / 'cli_out'
    out_dir.mkdir(exist_ok=True)
    post = utils.create_out_postfix(ProcCrs.ref, model='gain', kernel_shape=(3, 3), driver='GTiff')
    corr = out_dir / (pair['src_fn'].stem + post)
    rec = ip.Recorder({pair['src_fn']: 'src', pair['ref_fn']: 'ref', corr: 'corr'}, rng=random.Random(1), fault=fault)
    with ip.interposed(rec):
        res = CliRunner().invoke(hcli.cli, ['fuse', '-m', 'gain', '-k', '3', '3', '-od', str(out_dir), '-o', '-t', str(threads), '-mbm', repr(mbm),
                                            '-nbo', '-pc', 'ref', str(pair['src_fn']), str(pair['ref_fn'])])
    return res.exit_code, rec.fault_fired


def body(run):
    run.regenerate()
    run.build(extra_targets=['theories/Corr/CheckC04.v'])
    rng = run.rng('fault')
    cases, metas, dist = [], [], {}
    hung = False      # after a hang the stuck threads keep running: report it and stop exploring
    ngeo = run.scale(2, 10)
    for gi in range(ngeo):
        g = synth.aligned_geom(rng, run.scale(48, 60))
        g = synth.Geom(g.ref_res, max(g.ratio, 2), g.x0, g.y0, g.ref_shape, g.off_rc, g.src_shape)   # processing grid = reference
        pair = fz.make_pair(run.work, g, rng, tag='f')
        model = ['gain', 'gain-offset', 'gain-blk-offset'][gi % 3]
        kshape = (3, 3)
        mbm, nblocks = fz.pick_block_mem(pair['src_fn'], pair['ref_fn'], 'auto', run.scale(6, 12), kshape)
        kw = dict(model=model, kernel_shape=kshape, proc_crs='auto', max_block_mem=mbm, param=True, reuse=True)
        desc0 = dict(geom=g.describe(), model=model, blocks=nblocks, max_block_mem=mbm)
        clean = ic.digest(fz.fuse(pair['src_fn'], pair['ref_fn'], run.work / 'clean.tif', model=model, kernel_shape=kshape, max_block_mem=mbm, param=True, threads=1))
        sites = [(role, k) for role in ('src', 'ref', 'corr', 'param') for k in range(nblocks)]
        if not run.thorough:
            sites = [s for i, s in enumerate(sites) if i % 2 == gi % 2 or s[1] in (0, nblocks - 1)]
        for (role, k) in sites:
            for threads in ([1, 2, 4] if not run.thorough else [1, 2, 3, 4, 8]):
                seed = rng.randrange(10 ** 9)
                fault = dict(role=role, op='*', k=k)
                if hung:
                    break
                r = ic.run_fuse(pair, run.work / 'fault.tif', rng=random.Random(seed), threads=threads, fault=fault, timeout=20, **kw)
                hung = r['outcome'] == 'hang'
                desc = dict(desc0, fault=fault, threads=threads, schedule_seed=seed)
                key = f'fuse/{role}/threads={threads}'
                dist[key] = dist.get(key, 0) + 1
                run.count_case(('fuse', gi, role, k, threads), True, desc if len(run.cov['samples']) < 3 else None)
                if not r['rec'].fault_fired:
                    dist['fault-not-reached'] = dist.get('fault-not-reached', 0) + 1
                    continue
                problems = {}
                if not r['outcome'].startswith('raise:'):
                    problems['outcome'] = r['outcome']
                if r['wall'] > 30:
                    problems['wall_s'] = r['wall']
                if not r['files_closed']:
                    problems['files_closed'] = False
                if not r['locks_free']:
                    problems['locks_free'] = False
                if r['reuse'] != 'ok':
                    problems['second process() on the same object'] = r['reuse']
                elif r['result'] is not None and ic.digest(r['result']) != clean:
                    # it returned normally, so every block of every band must have been processed and written
                    problems['second process() on the same object returned normally with another result than a fault-free run'] = \
                        dict(valid_pixels=int(r['result']['corr']['mask'].sum()))
                if r['reader_closed'] is not True:
                    problems['reader_closed'] = r['reader_closed']
                if problems:
                    run.add_violation('a block failure was swallowed, hung or leaked', desc, expected='raise, terminate, close, reusable',
                                      observed=problems, signature=dict(kind='fault', parts=sorted(problems)))
                for tk, c in ic.trace_cases(r['rec'], 0):
                    # traces of the second (fault-free) call share the recorder; keep only tasks of the first pool
                    if threads > 1 and not tk.startswith('p1t'):
                        continue
                    cases.append(c)
                    metas.append(dict(desc, task=tk, observed_codes=c[2:]))
        if hung:
            break
        # CLI exit status
        for fault in [dict(role='src', op='*', k=1), dict(role='corr', op='*', k=0), dict(role='ref', op='*', k=nblocks - 1)]:
            for threads in (1, 2):
                code, fired = cli_fault(run, pair, fault, threads, mbm)
                dist['cli'] = dist.get('cli', 0) + 1
                run.count_case(('cli', gi, fault['role'], fault['k'], threads), True, None)
                if fired and code == 0:
                    run.add_violation('command line exited with status 0 although a block failed', dict(desc0, fault=fault, threads=threads),
                                      expected='non-zero exit status', observed=dict(exit_code=code), signature=dict(kind='cli-exit'))
        # compare and stats
        for role in ('src', 'ref'):
            for k in (0, nblocks - 1):
                for threads in (2, 4):
                    r = ic.run_compare(pair['src_fn'], pair['ref_fn'], rng=random.Random(k), threads=threads, fault=dict(role=role, op='*', k=k),
                                       max_block_mem=mbm, timeout=60, reuse=True)
                    if r['rec'].fault_fired and r['outcome'].startswith('raise:'):
                        fresh = fz.compare(pair['src_fn'], pair['ref_fn'], threads=1, max_block_mem=mbm)['stats']
                        same = r['reuse'] == 'ok' and r['reuse_stats'].keys() == fresh.keys() and all(
                            r['reuse_stats'][b]['n'] == fresh[b]['n'] and abs(r['reuse_stats'][b]['rmse'] - fresh[b]['rmse']) <= 1e-4 * (1 + abs(fresh[b]['rmse']))
                            for b in fresh if not (fresh[b]['rmse'] != fresh[b]['rmse']))
                        if not same:
                            run.add_violation('compare: the same object gives another result after a failed call', dict(desc0, fault=dict(role=role, k=k), threads=threads),
                                              expected={b: fresh[b]['n'] for b in fresh}, observed=dict(reuse=r['reuse'], n=None if r['reuse_stats'] is None else {b: r['reuse_stats'][b]['n'] for b in r['reuse_stats']}),
                                              signature=dict(kind='fault-compare-reuse'))
                    dist['compare'] = dist.get('compare', 0) + 1
                    run.count_case(('cmp', gi, role, k, threads), True, None)
                    if r['rec'].fault_fired and not (r['outcome'].startswith('raise:') and r['files_closed'] and r['locks_free']):
                        run.add_violation('compare swallowed / leaked on a block failure', dict(desc0, fault=dict(role=role, k=k), threads=threads),
                                          observed=dict(outcome=r['outcome'], files_closed=r['files_closed'], locks_free=r['locks_free']),
                                          signature=dict(kind='fault-compare'))
                    for tk, c in ic.trace_cases(r['rec'], 1):
                        cases.append(c)
                        metas.append(dict(desc0, what='compare', task=tk, observed_codes=c[2:]))
        base = fz.fuse(pair['src_fn'], pair['ref_fn'], run.work / 'forstats.tif', model=model, kernel_shape=kshape, max_block_mem=mbm, param=True)
        for k in (0, 1, 3):
            for threads in (1, 2, 4):
                r = ic.run_stats(run.work / 'forstats_PARAM.tif', rng=random.Random(k), threads=threads, fault=dict(role='stats', op='*', k=k), timeout=60)
                dist['stats'] = dist.get('stats', 0) + 1
                run.count_case(('stats', gi, k, threads), True, None)
                if r['rec'].fault_fired and not (r['outcome'].startswith('raise:') and r['files_closed'] and r['locks_free']):
                    run.add_violation('stats swallowed / leaked on a block failure', dict(desc0, fault=dict(role='stats', k=k), threads=threads),
                                      observed=dict(outcome=r['outcome'], files_closed=r['files_closed'], locks_free=r['locks_free']),
                                      signature=dict(kind='fault-stats'))
    failing, nt = run.corr('traces', 'Corr.CheckC04', cases, shard=600)
    for k in failing[:5]:
        run.add_break('correspondence-break', 'a (faulted) block performed a lock / dataset-access sequence that is not an outcome of the generated worker program', metas[k])
    run.cov['rule'] = ('fault injected at the k-th call on each shared dataset (source read, reference read, corrected write, parameter write; '
                       'every block index on a 4-block run in quick, all in thorough) x thread counts {1,2,4} for fuse (+ second process() on the same '
                       'object), compare, stats and the CLI exit status; every run is a distinct (site, block, threads) triple and non-trivial')
    run.cov['exhaustive'] = False
    run.extra['input_distribution'] = dict(runs=dist, observed_block_traces=len(cases), model_nontrivial=nt)
    run.trusted += ['Python with / try-finally / ThreadPoolExecutor / as_completed / Future.result semantics as encoded in Conc/IR.v, Conc/Sem.v, Conc/Coord.v',
                    'liveness beyond the protocol (a hang inside GDAL) is only a wall-clock test; faults in tags / overviews / close are outside the property (block failures)']


if __name__ == '__main__':
    Run('C09').guard(body)
