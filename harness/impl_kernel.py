"""Driver for the real KernelModel on in-memory RasterArrays, the case generator, and the brute-force
definition oracle (explicit Python loops, no NumPy in the arithmetic)."""
import math
import warnings

import numpy as np
from rasterio.transform import Affine

from harness import synth

warnings.filterwarnings('ignore')
MODELS = ['gain', 'gain-blk-offset', 'gain-offset']
NAN = float('nan')


def make_ra(arr, nodata=NAN):
    from homonim.raster_array import RasterArray
    return RasterArray(np.array(arr, dtype='float32', copy=True), synth.UTM, Affine(1, 0, 0, 0, -1, 0), nodata=nodata)


def run_fit(model, kshape, find_r2, thresh, src, ref, src_nodata=NAN):
    """Run KernelModel.fit; returns dict(params (bands,H,W) float32, norm (a,b)).  `src_nodata`: how the source block stores its invalid
    pixels (NaN, or a number that is not among its valid values) - the fit of a block must not depend on it."""
    from homonim.kernel_model import KernelModel
    km = KernelModel(model, tuple(kshape), find_r2=find_r2, r2_inpaint_thresh=thresh)

    def src_ra():
        if isinstance(src_nodata, float) and math.isnan(src_nodata):
            return make_ra(src)
        return make_ra(np.where(np.isnan(src), src_nodata, src), nodata=src_nodata)
    norm = KernelModel._fit_block_norm(src_ra(), make_ra(ref))
    with np.errstate(all='ignore'):
        pra = km.fit(src_ra(), make_ra(ref))
    return dict(params=np.array(pra.array, dtype='float64'), norm=(float(norm[0]), float(norm[1])), mask=np.array(pra.mask))


def encode(model, kshape, thresh, src, ref, out):
    P = out['params']
    H, W = src.shape
    has_r2 = P.shape[0] == 3
    r2 = P[2] if has_r2 else np.full((H, W), NAN)
    a, b = out['norm']
    hdr = [MODELS.index(model), kshape[0], kshape[1], int(has_r2), int(thresh is not None), 0.0 if thresh is None else thresh,
           a if math.isfinite(a) else 0.0, b if math.isfinite(b) else 0.0, H, W]
    return [float(x) for x in hdr] + [float(x) for arr in (src, ref, P[0], P[1], r2) for x in np.asarray(arr, dtype='float64').ravel()]


# ------------------------------------------------------------------------------------------------ generator
KERNELS = [1, 3, 5, 7, 9]
MASKS = ['none', 'border', 'holes', 'isolated', 'all-invalid', 'single', 'ref-holes', 'half']


def gen_mask(rng, kind, H, W):
    m = np.ones((H, W), bool)
    if kind == 'border':
        k = rng.randint(1, 2)
        m[:k] = m[-k:] = False
        m[:, :k] = m[:, -k:] = False
    elif kind in ('holes', 'ref-holes'):
        for _ in range(rng.randint(1, 3)):
            r, c = rng.randrange(H), rng.randrange(W)
            m[r:r + rng.randint(1, 3), c:c + rng.randint(1, 4)] = False
    elif kind == 'isolated':
        m[:] = False
        for _ in range(rng.randint(1, max(1, H * W // 6))):
            m[rng.randrange(H), rng.randrange(W)] = True
    elif kind == 'all-invalid':
        m[:] = False
    elif kind == 'single':
        m[:] = False
        m[rng.randrange(H), rng.randrange(W)] = True
    elif kind == 'half':
        m[:, W // 2:] = False
    return m


def gen_big_kernel_case(rng, model, kshape, shape):
    """A kernel window holding more than 255 jointly valid pixels (counts beyond 8 bits), small integer data."""
    kh, kw = kshape
    N = kh * kw
    vmax = max(3, int(4095 / N) - 1)
    H, W = shape
    src = np.array([[rng.randint(1, vmax) for _ in range(W)] for _ in range(H)], dtype='float32')
    g = rng.choice([1, 2])
    ref = np.clip(np.round(g * src + np.array([[rng.randint(-1, 1) for _ in range(W)] for _ in range(H)])), 0, vmax).astype('float32')
    if rng.random() < 0.5:
        src[rng.randrange(H), rng.randrange(W)] = NAN
    return dict(model=model, kshape=(kh, kw), find_r2=True, thresh=rng.choice([None, 0.25]) if model == 'gain-offset' else None,
                src=src, ref=ref, mask_kind='big-kernel', style='random')


def gen_case(rng, maxdim=14, exact=True):
    """One structured block pair.  Integer data with max|v|^2 * N^2 < 2^24 (every float32 box sum and product exact)."""
    model = rng.choice(MODELS)
    while True:
        kh, kw = rng.choice(KERNELS), rng.choice(KERNELS)
        if rng.random() < 0.65 and kh == kw:
            continue
        if model == 'gain-offset' and kh * kw < 2:
            continue
        break
    H, W = rng.randint(1, maxdim), rng.randint(1, maxdim)
    N = kh * kw
    vmax = max(3, min(400, int(4095 / N) - 1)) if exact else 4000
    lo = rng.choice([1, 1, 1, 0, 2])
    neg = model == 'gain-offset' and rng.random() < 0.25
    style = rng.choice(['linear-noise', 'random', 'linear', 'const-src', 'ramp'])
    if model == 'gain-offset' and rng.random() < 0.15:
        # a high signal level with little texture (standard deviation well below 1 % of the mean): a perfectly regular least-squares problem that
        # any "nearly constant" tolerance relative to the level - rather than to rounding - would misjudge
        style = 'high-level'
    g = rng.choice([0.5, 1, 1.5, 2, 0.25, 3])
    o = rng.choice([0, 0, 3, -2, 10])
    anti = model == 'gain-offset' and rng.random() < 0.25
    anti_cols = rng.choice([0, 0, W // 2])       # whole block, or only the columns from W // 2 on (so that there is something to in-paint from)
    ga, oa = -rng.choice([0.5, 1, 2]), vmax
    src = np.zeros((H, W))
    ref = np.zeros((H, W))
    for i in range(H):
        for j in range(W):
            if style == 'ramp':
                s = lo + (i * 2 + j * 3) % (vmax - lo + 1)
            elif style == 'const-src':
                s = min(vmax, 7)
            elif style == 'high-level':
                s = vmax - rng.randint(0, max(2, vmax // 80))
            else:
                s = rng.randint(lo, max(lo, vmax // 3))
            if neg and rng.random() < 0.3:
                s = -s
            if style == 'random':
                r = rng.randint(lo, vmax)
            elif anti and j >= anti_cols:
                # anti-correlated: clean negative gains with a high R2 (the in-paint rule treats them like low-R2 pixels)
                r = round(ga * s + oa + rng.randint(-1, 1))
            elif style == 'high-level':
                r = round(0.5 * s + (vmax // 4) + 3 * (s - vmax) + rng.randint(-1, 1))       # (steep local relation, large offset)
            elif style == 'linear':
                r = round(g * s + o)
            else:
                r = round(g * s + o + rng.randint(-max(1, vmax // 20), max(1, vmax // 20)))
            r = max(-vmax if neg else 0, min(vmax, r))
            src[i, j], ref[i, j] = s, r
    mk = rng.choice(MASKS)
    sm = gen_mask(rng, mk, H, W)
    rm = gen_mask(rng, 'holes', H, W) if mk == 'ref-holes' or rng.random() < 0.3 else np.ones((H, W), bool)
    src = np.where(sm, src, NAN).astype('float32')
    ref = np.where(rm, ref, NAN).astype('float32')
    find_r2 = rng.random() < 0.6
    thresh = rng.choice([None, None, 0.0, 0.25, 0.25, 1.0, 0.6]) if model == 'gain-offset' else rng.choice([None, 0.25])
    return dict(model=model, kshape=(kh, kw), find_r2=find_r2, thresh=thresh, src=src, ref=ref, mask_kind=mk, style=style)


# ------------------------------------------------------------------------------------------------ brute-force oracle
def brute_check(model, kshape, thresh, src, ref, out, rtol=2e-4, exact_sums=False):
    """C01 stated directly: for each pixel recompute the definition from explicit loops over the window.
    Returns None or a dict describing the first violating pixel."""
    P = out['params']
    H, W = src.shape
    kh, kw = kshape
    a, b = out['norm']
    has_r2 = P.shape[0] == 3

    def near(x, y, scale=1.0):
        if not (math.isfinite(x) and math.isfinite(y)):
            return (not math.isfinite(x)) and (not math.isfinite(y))
        return abs(x - y) <= rtol * (abs(y) + scale)
    for i in range(H):
        for j in range(W):
            jv = not (math.isnan(src[i, j]) or math.isnan(ref[i, j]))
            pg, po = float(P[0, i, j]), float(P[1, i, j])
            pr = float(P[2, i, j]) if has_r2 else None
            if not jv:
                if not (math.isnan(pg) and math.isnan(po) and (pr is None or math.isnan(pr))):
                    return dict(pixel=[i, j], what='parameters on a pixel that is not jointly valid', got=[pg, po, pr])
                continue
            xs, ys = [], []
            for u in range(i - (kh - 1) // 2, i + (kh - 1) // 2 + 1):
                for v in range(j - (kw - 1) // 2, j + (kw - 1) // 2 + 1):
                    if 0 <= u < H and 0 <= v < W and not (math.isnan(src[u, v]) or math.isnan(ref[u, v])):
                        xs.append(float(src[u, v]))
                        ys.append(float(ref[u, v]))
            n = len(xs)
            mx, my = sum(xs) / n, sum(ys) / n
            tss = sum((y - my) ** 2 for y in ys)
            if model == 'gain':
                if sum(xs) == 0:
                    continue
                eg, eo = sum(ys) / sum(xs), 0.0
            elif model == 'gain-blk-offset':
                sxn = sum(a * x + b for x in xs)
                if abs(sxn) < 1e-9 or not math.isfinite(a):
                    continue
                eg, eo = a * sum(ys) / sxn, b * sum(ys) / sxn
            else:
                var = sum((x - mx) ** 2 for x in xs)
                if var < 1e-9:
                    continue
                eg = sum((x - mx) * (y - my) for x, y in zip(xs, ys)) / var
                eo = my - eg * mx
            cond = cond_raw = 1.0
            if model == 'gain-offset':
                cond = (sum(x * x for x in xs) / max(var, 1e-12))   # amplification of float32 noise
                if cond > 200 and not exact_sums:
                    continue
                cond_raw = cond
                if exact_sums:
                    # (small integers: every float32 kernel sum and product is exact, nothing is amplified in gain and offset - a high level with
                    # little texture is judged like any other window, with the rounding of the final divisions only; R2 is different: the rounded
                    # gain and offset enter its expanded residual sum, which cancels, so it keeps the conditioning filter)
                    cond = min(cond, 200.0)
            # centroid: always, also for in-painted pixels
            if math.isfinite(pg) and math.isfinite(po) and not near(pg * mx + po, my, scale=abs(pg * mx) + abs(po) + 1e-3 * cond):
                return dict(pixel=[i, j], what='fitted line does not pass through the window centroid', got=[pg, po], mean=[mx, my])
            inpainted = False
            if model == 'gain-offset' and thresh is not None:
                rss = sum((y - (eg * x + eo)) ** 2 for x, y in zip(xs, ys))
                r2 = 1 - rss / tss if tss > 0 else NAN
                if not (math.isfinite(r2) and r2 > thresh + 1e-3 and eg > 1e-6):
                    inpainted = True
                    if math.isfinite(r2) and (abs(r2 - thresh) <= 1e-3 or abs(eg) <= 1e-6):
                        continue
            if not inpainted:
                if not (near(pg, eg, scale=1e-3 * cond) and near(po, eo, scale=abs(eg * mx) + 1e-3 * cond)):
                    return dict(pixel=[i, j], what=f'{model} parameters differ from the definition over the window',
                                got=[pg, po], expected=[eg, eo], n=n)
            if has_r2 and tss > 1e-6 and not inpainted:
                if model == 'gain-blk-offset':
                    gp = eg / a if a else NAN
                    rss = sum((y - gp * (a * x + b)) ** 2 for x, y in zip(xs, ys))
                else:
                    rss = sum((y - (pg * x + po)) ** 2 for x, y in zip(xs, ys))
                er2 = 1 - rss / tss
                amp = (sum(y * y for y in ys) + 1) / tss
                if amp < 200 and not (model == 'gain-offset' and cond_raw > 200) and math.isfinite(er2) and not near(pr, er2, scale=1 + 20 * amp * 1e-3):
                    return dict(pixel=[i, j], what='R2 differs from 1 - RSS/TSS of the window', got=pr, expected=er2)
    return None


def norm_check(src, ref, out):
    """block normalisation = (std_r / std_s, pct1_r - pct1_s * a) over the jointly valid pixels, from first principles."""
    a, b = out['norm']
    xs = [float(x) for x, y in zip(src.ravel(), ref.ravel()) if not (math.isnan(x) or math.isnan(y))]
    ys = [float(y) for x, y in zip(src.ravel(), ref.ravel()) if not (math.isnan(x) or math.isnan(y))]
    if len(xs) < 1:
        return a == 0 and b == 0
    mx, my = sum(xs) / len(xs), sum(ys) / len(ys)
    vx, vy = sum((x - mx) ** 2 for x in xs), sum((y - my) ** 2 for y in ys)
    if vx == 0:
        return True
    if not (math.isfinite(a) and math.isfinite(b)):
        return False

    def pct1(v):
        v = sorted(v)
        pos = 0.01 * (len(v) - 1)
        k = int(math.floor(pos))
        return v[k] + (v[min(k + 1, len(v) - 1)] - v[k]) * (pos - k)
    ea = math.sqrt(vy / vx)
    eb = pct1(ys) - pct1(xs) * ea
    return abs(a - ea) <= 1e-4 * (1 + ea) and abs(b - eb) <= 1e-3 * (1 + abs(eb) + abs(pct1(xs) * ea))


def corr_cases(run, todo, name='fit', shard=40):
    """Run the real fit on every case dict of ``todo`` and the Gallina model inside Coq; returns (failing metas, nontrivial)."""
    cases, metas = [], []
    for c in todo:
        out = run_fit(c['model'], c['kshape'], c['find_r2'], c['thresh'], c['src'], c['ref'], src_nodata=c.get('src_nodata', NAN))
        a, b = out['norm']
        if c['model'] == 'gain-blk-offset' and not (np.isfinite(a) and np.isfinite(b)):
            continue
        cases.append(encode(c['model'], c['kshape'], c['thresh'], c['src'], c['ref'], out))
        metas.append(dict(model=c['model'], kernel_shape=list(c['kshape']), find_r2=c['find_r2'], r2_inpaint_thresh=c['thresh'],
                          shape=list(c['src'].shape), note=c.get('note', ''),
                          src=np.where(np.isnan(c['src']), -9999, c['src']).tolist(),
                          ref=np.where(np.isnan(c['ref']), -9999, c['ref']).tolist()))
    # evaluation cost of a case inside Coq ~ pixels x kernel area (x 1.5 with in-painting): ~2000 such units per second
    def cost(c):
        return c[8] * c[9] * c[1] * c[2] * (1.5 if c[4] else 1.0)
    failing, nt = run.corr(name, 'Corr.CheckC01', cases, shard=shard, both='check_nt', cost=cost, budget=150000.0)
    return [metas[k] for k in failing], nt, len(cases)
