#!/bin/bash
# usage: harness/sweep.sh <tier> <seed>...   runs every check on the current tree, prints the summary lines and any alarm
cd "$(dirname "$0")/.."
tier=$1; shift
for sd in "$@"; do
  for i in $(seq -w 1 20); do echo C$i; done | VERIF_SEED=$sd xargs -P 3 -I{} sh -c './bin/check {} --tier '$tier' > work/sweep_{}_'$sd'.out 2>&1; tail -1 work/sweep_{}_'$sd'.out; grep -h "^VIOLATION\|^KNOWN" work/sweep_{}_'$sd'.out | sort | uniq -c'
done
