#!/venv/bin/python
"""C05 - blocking is transparent: block overlap gives full kernel coverage at seams."""
import math
import sys
from pathlib import Path
sys.path.insert(0, str(Path(__file__).resolve().parents[1]))
from harness.core import Run  # noqa: E402
from harness import synth, impl_kernel as ik, impl_fuse as fz, impl_windows  # noqa: E402
import numpy as np  # noqa: E402


def block_edges(src_fn, ref_fn, proc_crs, overlap, mbm):
    """Interior block boundaries on the source grid and the processing-pixel size in source pixels."""
    from homonim.raster_pair import RasterPairReader
    from homonim.enums import ProcCrs
    rows, cols = set(), set()
    with RasterPairReader(src_fn, ref_fn, proc_crs=ProcCrs(proc_crs)) as rd:
        H, W = rd._src_im.shape
        for bp in rd.block_pairs(overlap=overlap, max_block_mem=mbm):
            w = bp.src_out_block
            for r in (w.row_off, w.row_off + w.height):
                if 0 < r < H:
                    rows.add(int(r))
            for c in (w.col_off, w.col_off + w.width):
                if 0 < c < W:
                    cols.add(int(c))
        ratio = max(1.0, rd._ref_im.res[0] / rd._src_im.res[0]) if rd.proc_crs == ProcCrs.ref else 1.0
    return sorted(rows), sorted(cols), ratio


def body(run):
    run.build(extra_targets=['theories/Corr/CheckC01.v', 'theories/Corr/CheckC06.v'])
    rng = run.rng('seam')
    from homonim import utils
    # (a1) overlap_for_kernel and validate_kernel_shape: exhaustive small domain, evaluated against the model in Coq
    ov_cases = [[float(k), float(utils.overlap_for_kernel((k, k))[0])] for k in range(1, 100)]
    f, _ = run.corr('overlap', 'Corr.CheckC06', ov_cases, check='check_overlap', nontrivial='nontrivial_overlap')
    for k in f[:3]:
        run.add_break('correspondence-break', 'overlap_for_kernel differs from Grid.Window.overlap_for_kernel', ov_cases[k])
    ks_cases = []
    for mi, m in enumerate(ik.MODELS):
        for kh in range(-1, 10):
            for kw in range(-1, 10):
                try:
                    import warnings
                    with warnings.catch_warnings():
                        warnings.simplefilter('ignore')
                        utils.validate_kernel_shape((kh, kw), model=m)
                    acc = 1
                except ValueError:
                    acc = 0
                ks_cases.append([float(mi), float(kh), float(kw), float(acc)])
    f, _ = run.corr('kshape', 'Corr.CheckC06', ks_cases, check='check_kshape', nontrivial='nontrivial_kshape', shard=400)
    for k in f[:3]:
        run.add_break('correspondence-break', 'validate_kernel_shape differs from Grid.Window.validate_kernel_shape', ks_cases[k])
    # (a2) the kernel model on whole images and on the blocks cut from them (in-window = out-window + overlap)
    todo = []
    for _ in range(run.scale(14, 200)):
        c = ik.gen_case(rng, maxdim=10)
        if c['model'] == 'gain-blk-offset':
            c['model'] = 'gain'
        c['thresh'] = None
        H, W = c['src'].shape
        kh, kw = c['kshape']
        oa, ob = (kh + 1) // 2, (kw + 1) // 2
        ro, co = rng.randint(0, max(0, H - 1)), rng.randint(0, max(0, W - 1))
        ho, wo = rng.randint(1, H - ro), rng.randint(1, W - co)
        r0, r1, c0, c1 = max(0, ro - oa), min(H, ro + ho + oa), max(0, co - ob), min(W, co + wo + ob)
        todo.append(dict(c, note='whole image'))
        todo.append(dict(c, src=c['src'][r0:r1, c0:c1].copy(), ref=c['ref'][r0:r1, c0:c1].copy(), note=f'block {r0}:{r1},{c0}:{c1}'))
    bad, nt, ncorr = ik.corr_cases(run, todo)
    for m in bad[:5]:
        run.add_break('correspondence-break', 'KernelModel.fit differs from Kernel.Fit.fit_px on a block / whole image', m)
    # (b) paired real fusions: one block versus many blocks
    dist = {}
    n = run.scale(40, 600)
    for k in range(n):
        aligned = k % 2 == 0
        g = synth.aligned_geom(rng, max_src=run.scale(40, 60)) if aligned else synth.random_geom(rng, max_src=run.scale(40, 60))
        if k % 10 == 7:
            # equal resolutions on grids offset by a fraction of a pixel: the parameters reach the source grid through the DOWN-sampling kernel
            # (average: a 2 x 2 footprint) whatever the up-sampling option says
            sh_ = (rng.randint(24, 40), rng.randint(24, 40))
            off_ = (rng.randint(1, 3) + rng.choice([0.3, 0.6, 0.25]), rng.randint(1, 3) + rng.choice([0.3, 0.6, 0.75]))
            g = synth.Geom(rng.choice([1.0, 0.5, 10.0]), 1, *rng.choice([(16.0, 48.0), (300000.0, 6200000.0)]), (sh_[0] + 6, sh_[1] + 6), off_, sh_)
        model = ['gain', 'gain-offset'][(k // 2) % 2]
        kshape = rng.choice([(1, 1), (3, 3), (1, 3), (5, 3), (3, 5), (5, 5), (7, 3)])
        if model == 'gain-offset' and kshape == (1, 1):
            kshape = (3, 1)
        ups = ['cubic_spline', 'bilinear', 'nearest', 'average', 'cubic_spline', 'average', 'bilinear', 'nearest', 'cubic_spline', 'average'][k % 10]       # (average when up-sampling: the mean of the <= 2 x 2 parameter pixels a source pixel overlaps)
        sm = fz.src_mask(rng, g.src_shape, rng.choice(['none', 'border', 'holes', 'none']))
        pair = fz.make_pair(run.work, g, rng, smask=sm, tag='b')
        kw = dict(model=model, kernel_shape=kshape, proc_crs='auto', threads=1, model_config=dict(r2_inpaint_thresh=None, upsampling=ups))
        target = rng.choice([2, 4, 8, 16, 30])
        try:
            mbm = fz.block_mem_for(pair['src_fn'], pair['ref_fn'], 'auto', target, 1.05)
            one = fz.fuse(pair['src_fn'], pair['ref_fn'], run.work / 'one.tif', max_block_mem=1e6, **kw)
            try:
                many = fz.fuse(pair['src_fn'], pair['ref_fn'], run.work / 'many.tif', max_block_mem=mbm, **kw)
            except Exception as ex:
                if type(ex).__name__ != 'BlockSizeError':
                    raise
                mbm *= 6
                many = fz.fuse(pair['src_fn'], pair['ref_fn'], run.work / 'many.tif', max_block_mem=mbm, **kw)
        except Exception as ex:
            if type(ex).__name__ not in ('BlockSizeError', 'ImageContentError'):
                raise
            dist['error:' + type(ex).__name__] = dist.get('error:' + type(ex).__name__, 0) + 1
            continue
        # (the non-overlapping output blocks do not depend on the overlap: asked for with overlap 0, independently of the code's own overlap rule)
        rows, cols, ratio = block_edges(pair['src_fn'], pair['ref_fn'], 'auto', (0, 0), mbm)
        nblocks = (len(rows) + 1) * (len(cols) + 1)
        desc = dict(geom=g.describe(), aligned=aligned, model=model, kernel_shape=list(kshape), upsampling=ups, max_block_mem=mbm, blocks=nblocks,
                    proc_crs=one['proc_crs'])
        key = f'{"aligned" if aligned else "general"}/{model}/{ups}/{one["proc_crs"]}/blocks={"1" if nblocks == 1 else ">1"}'
        dist[key] = dist.get(key, 0) + 1
        run.count_case((k,), nblocks > 1, desc if k < 3 else None)
        problems = {}
        pa, pb = many['param']['array'].astype('float64'), one['param']['array'].astype('float64')
        # dyadic ("aligned") geometries: parameters must be bit-identical.  General geometries: the down-sampled source carries
        # last-bit noise that depends on the block origin (GDAL computes area weights from block-relative coordinates) and
        # OLS amplifies it, so parameters are compared to 1e-4 relative (+ 1e-3): still far below a missing kernel row
        with np.errstate(invalid='ignore'):
            ptol = 0.0 if aligned else (1e-4 * np.maximum(np.abs(pa), np.abs(pb)) + 1e-3)
            pbad = ~((pa == pb) | (np.isnan(pa) & np.isnan(pb)) | (np.abs(pa - pb) <= ptol))
        if model == 'gain-offset' and not aligned and one['proc_crs'] == 'ref' and pb.shape[0] % 3 == 0 and pbad[2 * (pb.shape[0] // 3):].any():
            # ... and the R2 band, evaluated in float32 as 1 - RSS / TSS from expanded kernel sums, carries the cancellation noise of
            # TSS = N * sum(r^2) - sum(r)^2: ~ eps32 * N * sum(r^2) / TSS, computed here per window in float64 from the files (values above 1,
            # which no exact R2 takes, are the same noise); 16 eps32 of it is allowed on top of the fixed tolerance
            from harness import impl_e2e as e2e_
            try:
                cw, rw_ = e2e_.r2_noise(pair['src_fn'], pair['ref_fn'], kshape)
                nb_ = pb.shape[0] // 3
                cond = np.zeros((nb_,) + pa.shape[1:])
                r0_, c0_ = (int(rw_.row_off), int(rw_.col_off)) if pa.shape[1:] != cw.shape[1:] else (0, 0)
                cond[:, r0_:r0_ + cw.shape[1], c0_:c0_ + cw.shape[2]] = cw
                with np.errstate(invalid='ignore'):
                    pbad[2 * nb_:] &= ~(np.abs(pa[2 * nb_:] - pb[2 * nb_:]) <= ptol[2 * nb_:] + 16 * 6e-8 * cond)
            except Exception:
                pass
        # general geometries, gain-offset: a window with two or three nearly collinear points gives an ill-conditioned least-squares problem
        # (huge gain / offset, corrected values far outside the data range) that amplifies the last-bit noise beyond any fixed tolerance;
        # such parameter pixels - recognised on the ONE-block run by |gain| > 5 or |offset| > 200 on data in 20 .. 220 - are not judged
        ill = np.zeros(pa.shape[1:], bool)
        if model == 'gain-offset' and not aligned and pb.shape[0] >= 2:
            with np.errstate(invalid='ignore'):
                ill = (np.abs(pb[0]) > 5) | (np.abs(pb[1]) > 200) | (np.abs(pa[0]) > 5) | (np.abs(pa[1]) > 200)
            pbad &= ~ill[None]
        if pbad.any():
            problems['parameter image'] = fz.first_diff(np.where(pbad, pa, 0), np.where(pbad, pb, 0))
        a, b = many['corr']['array'].astype('float64'), one['corr']['array'].astype('float64')
        bad_px = ~((a == b) | (np.isnan(a) & np.isnan(b)))
        # GDAL evaluates resampling weights from block-relative coordinates: last-bit (float32 ulp) noise in the
        # re-projected parameters is not a dependence on the partition; only differences above 8 ulp count
        with np.errstate(invalid='ignore'):
            bad_px &= ~(np.abs(a - b) <= (2e-6 if aligned else 1e-4) * np.maximum(np.abs(a), np.abs(b)) + (2e-5 if aligned else 1e-3))
        if ill.any():
            # source pixels within resampling reach (2 processing pixels) of an ill-conditioned parameter pixel
            reach = np.zeros_like(ill)
            for (r, c) in np.argwhere(ill):
                reach[max(0, r - 2):r + 3, max(0, c - 2):c + 3] = True
            if one['proc_crs'] == 'ref':
                rr = np.clip((g.off_rc[0] + (np.arange(a.shape[1]) + 0.5) / g.ratio).astype(int), 0, reach.shape[0] - 1)
                cc = np.clip((g.off_rc[1] + (np.arange(a.shape[2]) + 0.5) / g.ratio).astype(int), 0, reach.shape[1] - 1)
                bad_px &= ~reach[np.ix_(rr, cc)][None]
            elif reach.shape == a.shape[1:]:
                bad_px &= ~reach[None]
        if bad_px.any():
            if ups in ('bilinear', 'nearest', 'average') or one['proc_crs'] == 'src' or ratio < 1.0 or (ratio == 1.0 and k % 10 == 7):
                problems['corrected image'] = fz.first_diff(np.where(bad_px, a, 0), np.where(bad_px, b, 0))
            else:
                lim = math.ceil(ratio) + 1
                for (_, r, c) in np.argwhere(bad_px):
                    dr = min([abs(r + 0.5 - e) for e in rows] or [1e9])
                    dc = min([abs(c + 0.5 - e) for e in cols] or [1e9])
                    if min(dr, dc) > lim:
                        problems['corrected image (cubic): difference far from any block boundary'] = dict(
                            pixel=[int(r), int(c)], dist_src_px=float(min(dr, dc)), limit=lim, a=float(a[0, r, c]), b=float(b[0, r, c]))
                        break
        if problems:
            # classify: does the VALIDITY of processing pixels differ between the partitions (a sliver-overlapped pixel at the
            # footprint edge, finding D10), with every value difference within kernel reach (+ re-projection support) of it?
            m1, m2 = ~np.isnan(pa[0]), ~np.isnan(pb[0])
            dm = m1 ^ m2
            cause = 'other'
            if dm.any():
                reach_r, reach_c = kshape[0] // 2 + 2, kshape[1] // 2 + 2
                near = np.zeros_like(dm)
                for (r, c) in np.argwhere(dm):
                    near[max(0, r - reach_r):r + reach_r + 1, max(0, c - reach_c):c + reach_c + 1] = True
                if not (pbad.any(axis=0) & ~near).any():
                    cause = 'validity-sliver'
                problems['validity of processing pixels differs at'] = [[int(r), int(c)] for r, c in np.argwhere(dm)[:6]]
            if cause == 'other' and one['proc_crs'] == 'ref' and not aligned:
                # the same artefact inside a block's overlap ring (e.g. next to a hole) never reaches the parameter mask: ask directly
                # whether some block sees a processing pixel valid that the whole-window down-sampling sees invalid, or vice versa
                from harness import impl_e2e as e2e
                try:
                    sl = e2e.block_x_validity_diffs(pair['src_fn'], pair['ref_fn'], mbm, kshape, overlap=(math.ceil(kshape[0] / 2), math.ceil(kshape[1] / 2)))
                except Exception:       # (the classifier must not hide the difference it is asked about)
                    sl = []
                if sl:
                    reach_r, reach_c = kshape[0] // 2 + 2, kshape[1] // 2 + 2
                    near = np.zeros(pa.shape[1:], bool)
                    for (r, c) in sl:
                        near[max(0, r - reach_r):r + reach_r + 1, max(0, c - reach_c):c + reach_c + 1] = True
                    if not (pbad.any(axis=0) & ~near).any():
                        cause = 'validity-sliver'
                    problems['a block sees another validity than the whole window at processing pixels'] = [list(p) for p in sl[:6]]
            if cause == 'other' and ups == 'nearest' and one['proc_crs'] == 'ref' and not pbad.any() and list(problems) == ['corrected image']:
                # parameters identical, corrected differs with nearest up-sampling: are all differing source pixels ones whose centre lies exactly
                # on a processing-pixel edge (a nearest-neighbour tie, which GDAL breaks from block-relative coordinates)?
                def on_edge(idx, off):
                    v = off + (idx + 0.5) / g.ratio
                    return abs(v - round(v)) < 1e-9
                if all(on_edge(r, g.off_rc[0]) or on_edge(c, g.off_rc[1]) for (_, r, c) in np.argwhere(bad_px)):
                    cause = 'nearest-tie'
            run.add_violation('result depends on the block partition', desc, expected='identical parameters / corrected',
                              observed=problems, signature=dict(kind='blocking', cause=cause))
    # (c) a low-texture surface with a few extreme pixels (roofs on bare ground): nothing about a pixel's fit may be judged relative to the largest
    #     value / variance / denominator of the BLOCK it happens to share with them - one block versus many, dyadic geometry, bit for bit
    for k in range(run.scale(2, 8)):
        g = synth.aligned_geom(rng, max_src=run.scale(48, 64))
        hs, ws = g.src_shape
        src = (300 + np.array([[rng.randint(-3, 3) for _ in range(ws)] for _ in range(hs)])).astype('float32')[None]
        r0, c0 = rng.randrange(2, max(3, hs // 4)), rng.randrange(2, max(3, ws // 4))
        src[0, r0:r0 + 3, c0:c0 + 4] = 9000
        src[0, r0 + 1, c0 + 1:c0 + 3] = 100
        ref = (200 + 0.5 * fz.texture(rng, g.ref_shape, 1, lo=0, hi=40)).astype('float32')
        pair = fz.make_pair(run.work, g, rng, src=src, ref=ref, tag='ct')
        kshape = [(5, 5), (3, 3)][k % 2]
        kw = dict(model='gain-offset', kernel_shape=kshape, proc_crs='auto', threads=1, model_config=dict(r2_inpaint_thresh=None, upsampling='bilinear'))
        try:
            mbm = fz.block_mem_for(pair['src_fn'], pair['ref_fn'], 'auto', [16, 9][k % 2], 1.05)
            one = fz.fuse(pair['src_fn'], pair['ref_fn'], run.work / 'one.tif', max_block_mem=1e6, **kw)
            many = fz.fuse(pair['src_fn'], pair['ref_fn'], run.work / 'many.tif', max_block_mem=mbm, **kw)
        except Exception as ex:
            if type(ex).__name__ not in ('BlockSizeError', 'ImageContentError'):
                raise
            dist['error:' + type(ex).__name__] = dist.get('error:' + type(ex).__name__, 0) + 1
            continue
        desc = dict(geom=g.describe(), aligned=True, model='gain-offset', kernel_shape=list(kshape), upsampling='bilinear', max_block_mem=mbm,
                    data='surface 300 +- 3 with a 3 x 4 cluster of 9000 / 100', proc_crs=one['proc_crs'])
        dist['contrast/gain-offset'] = dist.get('contrast/gain-offset', 0) + 1
        run.count_case(('ct', k), True, desc if k < 1 else None)
        pa, pb = many['param']['array'], one['param']['array']
        # (gain and offset bit for bit; the R2 band of such windows is the cancellation-prone quantity of 10.3 and is not judged here)
        nb_ = pa.shape[0] // 3
        d = fz.first_diff(pa[:2 * nb_], pb[:2 * nb_])
        if d:
            run.add_violation('result depends on the block partition', desc, expected='identical parameters / corrected', observed={'parameter image': d},
                              signature=dict(kind='blocking', cause='other'))
    run.cov['evaluations'] += ncorr + len(ov_cases) + len(ks_cases)
    run.cov['rule'] = ('paired real fusions with 1 block versus 2..30 blocks on the auto grid (gain, gain-offset without in-painting; kernels incl. '
                       'h != w; nearest / bilinear / cubic-spline up-sampling) compared bit for bit (cubic: differences must lie within one '
                       'processing pixel of a block boundary); plus kernel correspondence on whole images and cut blocks; exhaustive '
                       'overlap_for_kernel k = 1..99 and validate_kernel_shape -1..9 x -1..9 x 3 models; non-trivial = more than one block')
    run.extra['input_distribution'] = dict(pairs=dist, kernel_corr_cases=ncorr, kernel_corr_nontrivial=nt)
    run.assumptions += ['H_down_local / H_up_local2: GDAL average down-sampling and bilinear / nearest up-sampling are local '
                        '(a processing pixel depends on the source pixels overlapping it; an up-sampled pixel on the 2 x 2 nearest '
                        'processing pixels) - exercised by the paired runs, not proved']
    run.trusted += ['GDAL reproject locality (hypotheses H_down_local, H_up_local2)']


if __name__ == '__main__':
    Run('C05').guard(body)
