#!/venv/bin/python
"""C12 - parameter statistics equal their definitions and agree with what fuse wrote."""
import sys
from pathlib import Path
sys.path.insert(0, str(Path(__file__).resolve().parents[1]))
from harness.core import Run  # noqa: E402
from harness import synth, impl_stats as st, impl_fuse as fz, impl_kernel as ik  # noqa: E402


def body(run):
    run.build(extra_targets=['theories/Corr/CheckC12.v'])
    rng = run.rng('param')
    cases, metas, dist = [], [], {}

    def one(fn, desc):
        threads = rng.choice([1, 2, 4])
        try:
            res = st.param_case(fn, threads)
        except Exception as ex:
            run.add_violation('ParamStats.stats() failed on a parameter image', desc, observed=f'{type(ex).__name__}: {str(ex)[:200]}',
                              signature=dict(kind='param-stats-raises', thresh=desc.get('r2_inpaint_thresh')))
            return
        desc = dict(desc, threads=threads, stats=[{k: (float(v) if not isinstance(v, str) else v) for k, v in s.items()} for s in res['obs']][:3])
        ntiles = len(res['tiles'][0])
        run.count_case((len(cases),), ntiles >= 2, desc if len(run.cov['samples']) < 3 else None)
        v = st.param_oracle(res)
        if v:
            run.add_violation('parameter statistic differs from its definition: ' + v, desc, signature=dict(kind='param-def'))
        # thread / completion-order independence
        res1 = st.param_case(fn, 1)
        if repr(res1['obs']) != repr(res['obs']):
            import math
            for a, b in zip(res['obs'], res1['obs']):
                for k in a:
                    if isinstance(a[k], str):
                        continue
                    # (accumulation order changes sums in the last bits; the standard deviation is the square root of a difference of such
                    # sums, so it is compared through its square, on the scale of the mean square)
                    if k == 'std':
                        scale = 1 + float(b['mean']) ** 2 + float(b['std']) ** 2
                        same = abs(float(a[k]) ** 2 - float(b[k]) ** 2) <= 1e-11 * scale
                    else:
                        same = abs(float(a[k]) - float(b[k])) <= 1e-12 * (1 + abs(float(b[k])))
                    if not (same or (math.isnan(float(a[k])) and math.isnan(float(b[k])))):
                        run.add_violation('parameter statistics depend on the thread count', desc, observed=dict(multi=a, single=b),
                                          signature=dict(kind='param-threads'))
        # a second call on the same open object (made inside param_case with another thread count) reports the same statistics
        if len(res['again']) != len(res['obs']):
            run.add_violation('parameter statistics of a second call on the same object differ', desc, observed=dict(first=len(res['obs']), second=len(res['again'])),
                              signature=dict(kind='param-repeat'))
        else:
            import math
            for a, b in zip(res['again'], res['obs']):
                for k in b:
                    if isinstance(b[k], str):
                        continue
                    if k == 'std':
                        scale = 1 + float(b['mean']) ** 2 + float(b['std']) ** 2
                        same = abs(float(a.get(k, math.nan)) ** 2 - float(b[k]) ** 2) <= 1e-11 * scale
                    else:
                        same = abs(float(a.get(k, math.nan)) - float(b[k])) <= 1e-12 * (1 + abs(float(b[k])))
                    if not (same or (math.isnan(float(a.get(k, math.nan))) and math.isnan(float(b[k])))):
                        run.add_violation('parameter statistics of a second call on the same object differ', desc, observed=dict(second=a, first=b),
                                          signature=dict(kind='param-repeat'))
                        break
        cases.append(st.encode_param(res))
        metas.append(desc)
    for k in range(run.scale(30, 600)):
        nb = rng.choice([1, 1, 2, 3, 4] if run.thorough else [1, 1, 2, 2, 3])
        model = rng.choice(ik.MODELS)
        thresh = rng.choice([None, 0.0, 0.25, 0.6, 1.0])
        layout = rng.choice(['tiled16', 'tiled32x16', 'strips', 'default'])
        same_names = nb >= 2 and k % 4 == 1       # statistics are per band of the file, whatever the bands are called
        if k % 7 == 3:
            model, thresh = 'gain-offset', 0.0        # a recorded threshold of 0 is a threshold (in-painting of negative R2 only), not "no value"
        lshape = k % 5 == 2
        if lshape:
            layout = ['tiled16', 'tiled32x16'][(k // 5) % 2]
        fn = st.make_param_image(run.work, rng, nb, model, thresh, layout, shape=(None if run.thorough else (rng.randint(17, 30), rng.randint(17, 34))) if not lshape else (rng.randint(36, 46), rng.randint(68, 80)),
                                 same_names=same_names, footprint='L' if lshape else None)
        key = f'synthetic/{model}/{layout}/thresh={thresh}' + ('/same-names' if same_names else '') + ('/L-footprint' if lshape else '')
        dist[key] = dist.get(key, 0) + 1
        one(fn, dict(kind='synthetic', bands=3 * nb, model=model, r2_inpaint_thresh=thresh, layout=layout))
    for k in range(run.scale(8, 120)):
        model = ik.MODELS[k % 3]
        thresh = rng.choice([None, 0.25, 0.6])
        nbands = rng.choice([1, 2])
        g, pair, mbm, nblk = fz.workable_pair(run.work, rng, lambda r: synth.random_geom(r, 28), (3, 3), 4, tag='p', bands=nbands)
        co = rng.choice([None, dict(tiled=True, blockxsize=16, blockysize=16), dict(tiled=False)])
        res = fz.fuse(pair['src_fn'], pair['ref_fn'], run.work / 'fused.tif', model=model, kernel_shape=(3, 3), max_block_mem=mbm,
                      model_config=dict(r2_inpaint_thresh=thresh), out_profile=dict(creation_options=co) if co else None)
        key = f'fused/{model}/thresh={thresh}'
        dist[key] = dist.get(key, 0) + 1
        one(run.work / 'fused_PARAM.tif', dict(kind='written by fuse', geom=g.describe(), model=model, r2_inpaint_thresh=thresh, bands=3 * nbands,
                                                creation_options=co))
    failing, nt = run.corr('param', 'Corr.CheckC12', cases, shard=4)
    for k in failing[:5]:
        run.add_break('correspondence-break', 'ParamStats.stats differs from Stats.Param on the valid values of the image', metas[k])
    run.cov['rule'] = ('ParamStats.stats() on synthetic parameter images (random float32 values, per-band NaN masks inside band 1\'s valid region, '
                       '1..4 x 3 bands, 3 models, thresholds None/0/.25/.6/1, tile layouts 16x16 / 32x16 / strips / default) and on images written '
                       'by real fusions; mean, std^2, in-paint % to 1e-9, min / max exactly, against the Gallina model and an exact-fraction '
                       'oracle, and single- vs multi-threaded; non-trivial = more than one internal tile')
    run.extra['input_distribution'] = dict(runs=dist, model_nontrivial=nt)
    run.assumptions += ['every valid pixel of every band lies in the bounding window of band 1\'s valid pixels (true for fuse output; the generator '
                        'respects it) - hypothesis of C12_prepass_loses_nothing']
    run.trusted += ['rasterio masked reads / block_windows give the valid values of each internal tile']
    run.finish()


if __name__ == '__main__':
    Run('C12').guard(body)
