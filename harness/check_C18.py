#!/venv/bin/python
"""C18 - outputs sit on the right grid, in the right band order, and describe themselves."""
import sys
from pathlib import Path
sys.path.insert(0, str(Path(__file__).resolve().parents[1]))
from harness.core import Run  # noqa: E402
from harness import synth, impl_fuse as fz, impl_kernel as ik, impl_bands as ib  # noqa: E402
import numpy as np  # noqa: E402
import rasterio as rio  # noqa: E402
from rasterio.enums import ColorInterp  # noqa: E402
from rasterio.transform import Affine  # noqa: E402

NAN = float('nan')
GAINS = [1.0, 0.5, 2.5, 4.0]


def readback_bands(fn):
    with rio.open(fn) as ds:
        out = []
        for i in range(ds.count):
            ci = ib.CI.index(ds.colorinterp[i]) if ds.colorinterp[i] in ib.CI else 4
            d = ds.descriptions[i] or ''
            cw = ds.tags(i + 1).get('center_wavelength')
            out.append(dict(ci=ci, maskdesc=d.endswith('_MASK') or d.endswith('_DIST'), cw=None if cw is None else float(cw)))
        return out


def write_south_up(fn, arr, transform, **kw):
    """the same image stored bottom-up"""
    h = arr.shape[-2]
    t = Affine(transform.a, 0, transform.c, 0, -transform.e, transform.f + transform.e * h)
    return synth.write_tif(fn, arr[..., ::-1, :], t, mask=None if kw.get('mask') is None else kw.pop('mask')[::-1, :], **kw)


def body(run):
    run.regenerate()
    run.build(extra_targets=['theories/Corr/CheckC18.v'])
    rng = run.rng('grid')
    from homonim import RasterFuse, RasterCompare
    from homonim.raster_pair import RasterPairReader
    from homonim.enums import ProcCrs
    cases, metas, dist = [], [], {}
    for k in range(run.scale(24, 300)):
        nb = rng.choice([1, 2, 3, 4])
        req = rng.choice(['auto', 'auto', 'src', 'ref'])
        kshape = rng.choice([(3, 3), (1, 3), (3, 5)])
        g, pair, mbm, nblk = fz.workable_pair(run.work, rng, lambda r: synth.random_geom(r, 30), kshape, rng.choice([1, 4]), proc_crs=req, tag='o', bands=1)
        src = np.repeat(pair['src'], nb, axis=0)
        ref = np.stack([pair['ref'][0] * np.float32(GAINS[b]) for b in range(nb)])
        # reference wavelengths: distinct, in a shuffled order; the source carries the same set in its own order -> unique nearest bands
        wl = rng.sample(ib.WL, nb)
        order = list(range(nb))
        rng.shuffle(order)
        with_wl = rng.random() < 0.7
        sfn, rfn = run.work / 'o_src.tif', run.work / 'o_ref.tif'
        synth.write_tif(sfn, src, g.src_transform, mask=pair['smask'],
                        band_tags={i + 1: {'center_wavelength': repr(wl[i])} for i in range(nb)} if with_wl else None)
        synth.write_tif(rfn, ref, g.ref_transform, mask=pair['rmask'], descriptions=[f'R{b + 1}' for b in range(nb)],
                        band_tags={order.index(i) + 1: {'center_wavelength': repr(wl[i] * rng.choice([1, 1.01, 0.995]))} for i in range(nb)} if with_wl else None)
        model = ik.MODELS[k % 3]
        mc = dict(r2_inpaint_thresh=rng.choice([0.25, 0.6, None]), upsampling=rng.choice(['cubic_spline', 'bilinear']), downsampling=rng.choice(['average', 'bilinear']),
                  mask_partial=False)
        threads = rng.choice([1, 2])
        out_profile = dict(dtype=rng.choice(['float32', 'float64']), nodata=NAN,
                           creation_options=rng.choice([None, dict(tiled=True, blockxsize=16, blockysize=16), dict(compress='deflate')]))
        if out_profile['creation_options'] is None:
            del out_profile['creation_options']
        # sometimes only some of the source bands are selected: outputs have one band per MATCHED source band
        sel = sorted(rng.sample(range(1, nb + 1), rng.randint(1, nb - 1))) if (with_wl and nb >= 2 and rng.random() < 0.4) else None
        desc = dict(geom=g.describe(), bands=nb, src_bands=sel, wavelengths=with_wl, ref_band_order=order, requested_proc_crs=req, model=model, kernel_shape=list(kshape),
                    model_config={a: b for a, b in mc.items()}, threads=threads, max_block_mem=mbm, out_profile=out_profile)
        res = fz.fuse(sfn, rfn, run.work / 'o_out.tif', model=model, kernel_shape=kshape, proc_crs=req, max_block_mem=mbm, threads=threads,
                      model_config=mc, out_profile=out_profile, src_bands=sel)
        key = f'{req}->{res["proc_crs"]}/bands={nb}/wl={with_wl}'
        dist[key] = dist.get(key, 0) + 1
        run.count_case((k,), nb >= 2 or req == 'auto', desc if len(run.cov['samples']) < 3 else None)
        C, P = res['corr'], res['param']
        problems = {}
        with rio.open(sfn) as s_ds, rio.open(rfn) as r_ds:
            sres, rres = [abs(v) for v in s_ds.res], [abs(v) for v in r_ds.res]
            proc_ds = r_ds if res['proc_crs'] == 'ref' else s_ds
            if (C['shape'], C['crs'], tuple(C['transform'])[:6]) != (s_ds.shape, s_ds.crs, tuple(s_ds.transform)[:6]):
                problems['corrected image is not on the source grid'] = dict(shape=C['shape'], transform=list(C['transform'])[:6])
            if (P['shape'], P['crs'], tuple(P['transform'])[:6]) != (proc_ds.shape, proc_ds.crs, tuple(proc_ds.transform)[:6]):
                problems['parameter image is not on the processing grid'] = dict(shape=P['shape'], transform=list(P['transform'])[:6])
        cases.append([0.0, float(['auto', 'src', 'ref'].index(req)), sres[0], sres[1], rres[0], rres[1], 1.0 if res['proc_crs'] == 'src' else 2.0])
        metas.append(desc)
        if C['count'] != len(res['src_bands']) or P['count'] != 3 * len(res['src_bands']):
            problems['band counts'] = [C['count'], P['count'], len(res['src_bands'])]
        if with_wl:
            expect_ref = tuple(order.index(i - 1) + 1 for i in (sel or range(1, nb + 1)))
            if tuple(res['ref_bands']) != expect_ref or tuple(res['src_bands']) != tuple(sel or range(1, nb + 1)):
                problems['fusion matched the wrong bands'] = dict(got=[res['src_bands'], res['ref_bands']], expected_ref=expect_ref)
        # band order by content: corrected band i was fused with reference band ref_bands[i] (factor GAINS[...])
        if model == 'gain' and C['count'] >= 2 and C['count'] == len(res['ref_bands']) and len(set(GAINS[b - 1] for b in res['ref_bands'])) == C['count']:
            means = [float(np.nanmean(C['array'][i])) for i in range(C['count'])]
            base = means[0] / GAINS[res['ref_bands'][0] - 1]
            for i, m in enumerate(means):
                if abs(m / GAINS[res['ref_bands'][i] - 1] - base) > 2e-2 * abs(base):
                    problems['corrected bands are not in matched order'] = dict(means=means, ref_bands=res['ref_bands'])
        # self-description: effective settings in the tags of both outputs
        eff = dict(MODEL=model.replace('-', '_'), KERNEL_SHAPE=str(tuple(kshape)), PROC_CRS=res['proc_crs'], SRC_FILE=sfn.name, REF_FILE=rfn.name,
                   R2_INPAINT_THRESH=str(mc['r2_inpaint_thresh']), UPSAMPLING=mc['upsampling'], DOWNSAMPLING=mc['downsampling'], MASK_PARTIAL='False',
                   THREADS=str(threads), MAX_BLOCK_MEM=str(mbm))
        for which, R in (('corrected', C), ('parameter', P)):
            bad = {kk: (R['tags'].get('FUSE_' + kk), v) for kk, v in eff.items() if R['tags'].get('FUSE_' + kk) != v}
            if bad:
                problems[f'{which} image tags do not record the effective settings'] = bad
        # the matched reference bands' wavelength metadata travels with the corrected bands
        if with_wl:
            with rio.open(rfn) as r_ds:
                for i, rbi in enumerate(res['ref_bands']):
                    if C['band_tags'][i].get('center_wavelength') != r_ds.tags(rbi).get('center_wavelength'):
                        problems['corrected band does not carry its reference band wavelength'] = dict(band=i + 1, got=C['band_tags'][i], ref_band=rbi)
        # fuse -> compare round trip: comparing the corrected image with the same reference selects the same bands
        try:
            with RasterCompare(run.work / 'o_out.tif', rfn) as rc:
                cmp_pairs = (tuple(rc.src_bands), tuple(rc.ref_bands))
        except Exception as ex:
            cmp_pairs = ('error', f'{type(ex).__name__}: {str(ex)[:80]}')
        want = (tuple(range(1, len(res['src_bands']) + 1)), tuple(res['ref_bands']))
        if with_wl:
            if cmp_pairs != want:
                problems['compare(corrected, reference) selects other bands than the fusion'] = dict(compare=cmp_pairs, fusion=want)
            obs = (0, list(want[0]), list(want[1]), '')
            cases.append([1.0] + ib.encode(readback_bands(run.work / 'o_out.tif'), readback_bands(rfn), None, None, False, obs))
            metas.append(dict(desc, roundtrip=want))
        if problems:
            run.add_violation('outputs are misplaced, mis-ordered or do not describe themselves', desc, observed=problems,
                              signature=dict(kind='outputs', parts=sorted(problems)))
        # south-up storage changes nothing
        if k % 3 == 0:
            which = rng.choice(['src', 'ref', 'both'])
            s2, r2 = run.work / 'su_src.tif', run.work / 'su_ref.tif'
            bt_s = {i + 1: {'center_wavelength': repr(wl[i])} for i in range(nb)} if with_wl else None
            if which in ('src', 'both'):
                write_south_up(s2, src, g.src_transform, mask=pair['smask'], band_tags=bt_s)
            else:
                synth.write_tif(s2, src, g.src_transform, mask=pair['smask'], band_tags=bt_s)
            with rio.open(rfn) as r_ds:
                bt_r = {i + 1: r_ds.tags(i + 1) for i in range(nb)}
            if which in ('ref', 'both'):
                write_south_up(r2, ref, g.ref_transform, mask=pair['rmask'], band_tags=bt_r, descriptions=[f'R{b + 1}' for b in range(nb)])
            else:
                synth.write_tif(r2, ref, g.ref_transform, mask=pair['rmask'], band_tags=bt_r, descriptions=[f'R{b + 1}' for b in range(nb)])
            res2 = fz.fuse(s2, r2, run.work / 'su_out.tif', model=model, kernel_shape=kshape, proc_crs=req, max_block_mem=mbm, threads=threads,
                           model_config=mc, out_profile=out_profile, src_bands=sel)
            dist['south-up/' + which] = dist.get('south-up/' + which, 0) + 1
            run.count_case(('su', k), True, None)
            # dyadic geometries: bit-identical.  Otherwise the north-up view GDAL's WarpedVRT builds of a flipped image has bounds that differ
            # from the stored north-up ones in the last bits (res * height is not exact), which shows as float32 ulp noise in the values:
            # masks identical, values to 2e-6 relative
            dyadic = all(float(v * 8).is_integer() for v in (g.ref_res, g.ratio, g.x0, g.y0, *g.off_rc)) and g.ratio >= 1

            def close(a, b):
                a, b = np.asarray(a, 'float64'), np.asarray(b, 'float64')
                if a.shape != b.shape or not np.array_equal(np.isnan(a), np.isnan(b)):
                    return False
                ok = ~np.isnan(a)
                with np.errstate(invalid='ignore'):
                    return bool(np.all((a[ok] == b[ok]) | (np.abs(a[ok] - b[ok]) <= 2e-6 * (np.abs(b[ok]) + 1))))
            same = (fz.same_arrays(res2['corr']['array'], C['array']) and fz.same_arrays(res2['param']['array'], P['array'])) if dyadic else \
                (close(res2['corr']['array'], C['array']) and close(res2['param']['array'], P['array']))
            d = None if same else (fz.first_diff(res2['corr']['array'], C['array']) or fz.first_diff(res2['param']['array'], P['array']))
            t2, t1 = tuple(res2['corr']['transform'])[:6], tuple(C['transform'])[:6]
            # (the north-up transform of a flipped image is recomputed from its bounds: equal to a millionth of a pixel, bit-equal when dyadic)
            same_t = t2 == t1 if dyadic else all(abs(a - b) <= 1e-6 * abs(g.src_res) for a, b in zip(t2, t1))
            if not same or not same_t:
                run.add_violation('storing an input south-up changes the result', dict(desc, south_up=which), observed=dict(first_diff=d, transforms=[list(t2), list(t1)]),
                                  signature=dict(kind='south-up', which=which))
    # ---- images in different coordinate systems with different units (metres vs degrees): "the coarser of the two" is about ground size,
    #      which the reader establishes after bringing both images into one coordinate system
    from rasterio.warp import transform_bounds
    from rasterio.crs import CRS
    wgs = CRS.from_epsg(4326)
    for mi in range(run.scale(4, 24)):
        fine_is_src = mi % 2 == 0
        x0, y0 = 300000.0 + 1000 * rng.randint(0, 50), 6200000.0 + 1000 * rng.randint(0, 50)
        fres = rng.choice([0.5, 1.0, 2.0])
        fsh = (rng.randint(40, 64), rng.randint(40, 64))
        ft = Affine(fres, 0, x0, 0, -fres, y0)
        fb = (x0, y0 - fres * fsh[0], x0 + fres * fsh[1], y0)                      # left, bottom, right, top of the fine (UTM) image
        w, s_, e, n = transform_bounds(synth.UTM, wgs, *fb)
        cres = fres * rng.choice([5, 8]) / 111000.0                                # coarse pixel in degrees: 5 - 8 fine pixels on the ground
        if fine_is_src:      # coarse geographic reference around the fine projected source
            cw, cn = w - 4 * cres, n + 4 * cres
            csh = (int((cn - s_) / cres) + 5, int((e - cw) / cres) + 5)
        else:                # coarse geographic source inside the fine projected reference
            cw, cn = w + 3 * cres, n - 3 * cres
            csh = (max(4, int((cn - s_) / cres) - 3), max(4, int((e - cw) / cres) - 3))
        ct = Affine(cres, 0, cw, 0, -cres, cn)
        fine_arr = fz.texture(rng, fsh, 1)
        coarse_arr = fz.texture(rng, csh, 1, lo=30, hi=180)
        sfn, rfn = run.work / 'x_src.tif', run.work / 'x_ref.tif'
        if fine_is_src:
            synth.write_tif(sfn, fine_arr, ft)
            synth.write_tif(rfn, coarse_arr, ct, crs=wgs)
        else:
            synth.write_tif(sfn, coarse_arr, ct, crs=wgs)
            synth.write_tif(rfn, fine_arr, ft)
        desc = dict(mixed_crs=True, source=('UTM %g m' % fres) if fine_is_src else ('WGS84 %.3g deg' % cres),
                    reference=('WGS84 %.3g deg' % cres) if fine_is_src else ('UTM %g m' % fres), requested_proc_crs='auto')
        want = 'ref' if fine_is_src else 'src'
        run.count_case(('mixed', mi), True, desc if mi < 1 else None)
        dist['mixed-crs/' + want] = dist.get('mixed-crs/' + want, 0) + 1
        try:
            res = fz.fuse(sfn, rfn, run.work / 'x_out.tif', model='gain', kernel_shape=(3, 3), proc_crs='auto', max_block_mem=1e6, threads=1)
        except Exception as ex:
            if type(ex).__name__ in ('ImageContentError', 'BlockSizeError'):
                dist['mixed-crs/skipped:' + type(ex).__name__] = dist.get('mixed-crs/skipped:' + type(ex).__name__, 0) + 1
                continue
            raise
        problems = {}
        if res['proc_crs'] != want:
            problems['auto did not resolve to the coarser image'] = dict(got=res['proc_crs'], expected=want)
        with rio.open(sfn) as s_ds:
            if (res['corr']['crs'], res['corr']['shape']) != (s_ds.crs, s_ds.shape) or \
                    any(abs(a - b) > 1e-9 * max(1.0, abs(b)) for a, b in zip(tuple(res['corr']['transform'])[:6], tuple(s_ds.transform)[:6])):
                problems['corrected image is not on the source grid'] = dict(crs=str(res['corr']['crs']), shape=res['corr']['shape'],
                                                                            transform=list(res['corr']['transform'])[:6])
        if res['corr']['tags'].get('FUSE_PROC_CRS') != want or res['param']['tags'].get('FUSE_PROC_CRS') != want:
            problems['recorded processing grid'] = res['corr']['tags'].get('FUSE_PROC_CRS')
        if problems:
            # known finding D18: different CRSs and the SOURCE is the processing grid - the reader warps the source into the reference's CRS
            # and the corrected image is written on that warped grid
            d18 = (not fine_is_src) and sorted(problems) == ['corrected image is not on the source grid'] and res['proc_crs'] == 'src'
            run.add_violation('outputs are misplaced, mis-ordered or do not describe themselves', desc, observed=problems,
                              signature=dict(kind='outputs', parts=sorted(problems), cause='mixed-crs-source-is-processing-grid' if d18 else 'other'))
    # D7: colour-interpretation matching (BGR source, RGB reference, no wavelength tags) is not recorded in the corrected image
    g, pair, mbm, nblk = fz.workable_pair(run.work, rng, lambda r: synth.aligned_geom(r, 24), (3, 3), 1, tag='d7', bands=1)
    src3 = np.repeat(pair['src'], 3, axis=0)
    ref3 = np.stack([pair['ref'][0] * np.float32(GAINS[b]) for b in range(3)])
    sfn, rfn = run.work / 'd7_src.tif', run.work / 'd7_ref.tif'
    synth.write_tif(sfn, src3, g.src_transform, mask=pair['smask'], dtype='uint8', encoding='nodata', nodata=0, colorinterp=[ColorInterp.blue, ColorInterp.green, ColorInterp.red], photometric='minisblack')
    synth.write_tif(rfn, ref3, g.ref_transform, dtype='uint8', encoding='nodata', nodata=0, colorinterp=[ColorInterp.red, ColorInterp.green, ColorInterp.blue], photometric='rgb')
    with rio.open(sfn) as a, rio.open(rfn) as b:
        ci_ok = list(a.colorinterp) == [ColorInterp.blue, ColorInterp.green, ColorInterp.red] and list(b.colorinterp)[:3] == [ColorInterp.red, ColorInterp.green, ColorInterp.blue]
    if ci_ok:
        res = fz.fuse(sfn, rfn, run.work / 'd7_out.tif', model='gain', kernel_shape=(3, 3), max_block_mem=1e6)
        with RasterCompare(run.work / 'd7_out.tif', rfn) as rc:
            cmp_pairs = (tuple(rc.src_bands), tuple(rc.ref_bands))
        want = (tuple(range(1, len(res['src_bands']) + 1)), tuple(res['ref_bands']))
        run.count_case(('d7',), True, dict(colour_interp='BGR source, RGB reference', fusion=want, compare=cmp_pairs))
        if cmp_pairs != want:
            run.add_violation('compare(corrected, reference) selects other bands than the fusion did (bands matched by colour interpretation)',
                              dict(source_colorinterp='blue,green,red', reference_colorinterp='red,green,blue', wavelength_tags=False),
                              observed=dict(fusion=want, compare=cmp_pairs), signature=dict(kind='roundtrip-colorinterp'))
    else:
        dist['d7-skipped-colorinterp-not-stored'] = 1
    failing, nt = run.corr('grid', 'Corr.CheckC18', cases)
    for k2 in failing[:5]:
        run.add_break('correspondence-break', 'processing grid resolution / band round trip differs from Grid.ProcGrid.resolve / Bands.Match', metas[k2])
    # ---- several source files in one command-line invocation: each file's parameter image sits on the grid `auto` resolves to for THAT file
    #      (the coarser of that source and the reference), and the outputs record it
    from harness import impl_multi as im
    from homonim import utils as hutils
    mrng = run.rng('multi')
    files = im.make_files(run.work, mrng)
    for oi, order in enumerate([('fine3', 'coarse4'), ('coarse4', 'fine3'), ('fine4', 'coarse4', 'fine3')]):
        od = run.work / f'multi_out{oi}'
        od.mkdir()
        code, outp, seen = im.cli_fuse([files[k_] for k_ in order], files['ref'], od, extra=['-pi'])
        run.count_case(('cli-multi', oi), True, dict(order=list(order)) if oi == 0 else None)
        problems = {}
        if code != 0:
            problems['exit code'] = code
        for k_, rec in zip(order, seen):
            exp_grid = 'src' if k_.startswith('coarse') else 'ref'
            if rec['proc_crs'] != exp_grid:
                problems[f'{k_}: processing grid'] = dict(got=rec['proc_crs'], expected=exp_grid)
            outs = sorted(od.glob(f'{Path(rec["src"]).stem}_FUSE_*_PARAM.tif'))
            if len(outs) != 1:
                problems[f'{k_}: parameter image'] = [o_.name for o_ in outs]
                continue
            with rio.open(outs[0]) as pds, rio.open(files[k_]) as sds, rio.open(files['ref']) as rds:
                coarser = max(abs(sds.res[0]), abs(rds.res[0]))
                if abs(abs(pds.res[0]) - coarser) > 1e-9 or pds.tags().get('FUSE_PROC_CRS', '').lower() not in (exp_grid, f'proccrs.{exp_grid}'):
                    problems[f'{k_}: parameter image grid'] = dict(res=pds.res[0], expected_res=coarser, tag=pds.tags().get('FUSE_PROC_CRS'))
        if problems:
            run.add_violation('outputs are misplaced, mis-ordered or do not describe themselves', dict(files=list(order), via='command line, several source files'),
                              observed=problems, signature=dict(kind='profile', part='cli-multi-grid'))
    run.cov['rule'] = ('real fusions (1..4 bands, reference bands permuted with wavelength tags in 70 %, requested grid auto/src/ref, 3 models, output profiles): '
                       'geometry of both outputs, band count and order by content, every effective setting in the FUSE_* tags, wavelength tags copied, '
                       'compare(corrected, reference) band pairs, the Gallina band matcher on the metadata actually written; every third pair re-run with the '
                       'source / reference / both stored south-up (bit-identical on dyadic geometries, masks identical and values to 2e-6 otherwise); non-trivial = >= 2 bands or auto grid')
    run.extra['input_distribution'] = dict(runs=dist, model_nontrivial=nt)
    run.assumptions += ['H_vrt: a WarpedVRT of a flipped same-grid image is that image north-up (exercised exactly); geo-placement relies on GDAL']
    run.trusted += ['GDAL / rasterio geo-referencing, tags and WarpedVRT; translate/skeleton.py (tags plumbing)']
    run.finish()


if __name__ == '__main__':
    Run('C18').guard(body)
